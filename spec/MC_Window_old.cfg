CONSTANT Variant = "old"
INIT Init
NEXT Next
INVARIANT Agree
INVARIANT Refines
