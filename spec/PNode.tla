-------------------------------- MODULE PNode --------------------------------
(* Layer P - contract monitors for a running Node (C09 node links, C10, C11,  *)
(* C12, C13, C14, C16).  The monitor is a function Step(m, ev) over the       *)
(* observable events of a run; it accumulates the violated clauses in m.bad   *)
(* as <<clause, event sequence number>>.  It is used (1) by Trace_Node on     *)
(* traces recorded from the real node, (2) beside the implementation-shaped   *)
(* model INode in the MC_Node* configurations (m' = Step(m, obs')).           *)
(*                                                                            *)
(* Observable events (field e):                                               *)
(*   Scenario  conf, kinds (endpoint kinds), npeers                           *)
(*   Init ok | Feed ep peer kind tag sys comp autopilot | ReadErr ep peer     *)
(*   Ev type ep inst peer tag cause dup sys comp autopilot id                 *)
(*   WInv g call kind target tep tinst tag bad | WRet call err panic          *)
(*   Out ep peer f   one whole frame seen on the wire of an endpoint          *)
(*   TWFail ep closed | TWBlocked ep | TMode ep mode                          *)
(*   Attempt ep n mode probe t | CloseInv | CloseRet | EvClosed | Timeout what *)
(*   Quiesced  the harness saw no activity for a whole idle interval          *)
(*   Final goroutines_left ports_rebound custom_close events_closed | Panic   *)
(* Every event carries seq (global order) and t (milliseconds).               *)
EXTENDS Integers, Sequences, SequencesExt, FiniteSets, FiniteSetsExt, MavFrame, MavMessage, SrRule, ReconnRule

CONSTANTS Defs,        \* reflected message definitions (for heartbeat / stream request decoding, checksums)
          HbDef, SrDef, TagDef   \* indices into Defs of HEARTBEAT, REQUEST_DATA_STREAM, NAMED_VALUE_INT

OneAtATimeKinds == {"custom", "tcp_client", "udp_client", "udp_broadcast", "serial"}
ClientKinds == {"tcp_client", "udp_client", "serial"}

Init0 ==
  [conf |-> <<>>, kinds |-> <<>>, initOk |-> TRUE,
   opened |-> {}, closed |-> {}, instPeer |-> <<>>,          \* channel instances <<ep, inst>>
   pend |-> <<>>,                                            \* [<<ep, peer>> -> queue of valid tags / -1 fault marks]
   causes |-> <<>>,                                          \* [<<ep, peer>> -> queue of the errors injected on the read side]
   faulted |-> {}, disturbed |-> {}, wfault |-> <<>>,        \* endpoints with read faults / any disturbance / write fault seq
   closing |-> FALSE, closeRet |-> FALSE, consumerStopped |-> FALSE, everHeld |-> FALSE,
   quietLost |-> {},                                         \* <<ep, peer, tag>>: valid frames still undelivered when the node was seen idle
   calls |-> <<>>,                                           \* call records in invoke order
   ret |-> {},                                               \* calls that returned
   settled |-> {},                                           \* calls that had returned when the harness last saw the node idle
   outs |-> <<>>,                                            \* [ep -> sequence of [tag, g, call]]
   nOrig |-> <<>>,                                           \* [ep -> originated frames seen since the instance started]
   newInst |-> {},                                           \* endpoints that opened a new instance since the last originated frame
   linkId |-> <<>>, lastTs |-> <<>>,
   hb |-> <<>>,                                              \* [ep -> sequence of heartbeat times]
   sr |-> <<>>,                                              \* stream requests seen [ep, sys, comp, stream]
   srEv |-> <<>>,                                            \* stream-requested events
   apHb |-> <<>>,                                            \* ardupilot heartbeats received as events [ep, inst, sys, comp]
   attempts |-> <<>>, closeTimes |-> <<>>, openTimes |-> <<>>,
   blockedAt |-> <<>>, releasedAt |-> <<>>,
   tEnd |-> 0, tInit |-> 0, tCloseInv |-> -1,
   unobservable |-> {},                                      \* client endpoints whose fake server refused / hung at some point
   bad |-> {}]

Key(ev) == <<ev.ep, ev.inst>>
Wire(ev) == <<ev.ep, ev.peer>>          \* one wire per custom endpoint (peer 0) and per peer of a server endpoint
PKey(ev) == <<ev.ep, ev.peer>>

Flag(m, clause, ev) == [m EXCEPT !.bad = @ \cup {<<clause, ev.seq>>}]
Check(m, clause, ok, ev) == IF ok THEN m ELSE Flag(m, clause, ev)

Get(f, k, default) == IF k \in DOMAIN f THEN f[k] ELSE default
Put(f, k, v) == [x \in (DOMAIN f) \cup {k} |-> IF x = k THEN v ELSE f[x]]

Keyed(m) == Len(m.conf.inkey) > 0
ValidKind(m, kind) == kind \in ({"valid", "hb"} \cup (IF Keyed(m) THEN {} ELSE {"v1", "unsigned"}))

\* ------------------------------------------------------------------ C10: events
OnFeed(m, ev) ==
  IF ValidKind(m, ev.kind)
  THEN [m EXCEPT !.pend = Put(@, PKey(ev), Append(Get(@, PKey(ev), <<>>), ev.tag))]
  ELSE m

OnReadErr(m, ev) ==
  [m EXCEPT !.pend = Put(@, PKey(ev), Append(Get(@, PKey(ev), <<>>), -1)),
            !.causes = Put(@, PKey(ev), Append(Get(@, PKey(ev), <<>>), ev.cause)),
            !.faulted = @ \cup {ev.ep}, !.disturbed = @ \cup {ev.ep}]

IsOpen(m, k) == k \in m.opened /\ k \notin m.closed

OnEvOpen(m, ev) ==
  LET k == Key(ev)
      othersOpen == {j \in m.opened \ m.closed : j[1] = ev.ep /\ j # k}
      m1 == Check(m, "C10.open_exactly_once_and_first", k \notin m.opened /\ ~ev.dup, ev)
      \* once Close is invoked close events may legitimately be missing (found by TLC on INode): not held against the closing window
      m2 == Check(m1, "C14.one_channel_at_a_time", m.closing \/ ~(m.kinds[ev.ep + 1] \in OneAtATimeKinds) \/ othersOpen = {}, ev)
  IN [m2 EXCEPT !.opened = @ \cup {k}, !.instPeer = Put(@, k, ev.peer), !.newInst = @ \cup {ev.ep},
                !.openTimes = Append(@, [ep |-> ev.ep, inst |-> ev.inst, peer |-> ev.peer, t |-> ev.t, seq |-> ev.seq])]

PendOf(m, ev) == Get(m.pend, <<ev.ep, Get(m.instPeer, Key(ev), 0)>>, <<>>)

OnEvFrame(m, ev) ==
  LET k == Key(ev)
      pk == <<ev.ep, Get(m.instPeer, k, 0)>>
      q == Get(m.pend, pk, <<>>)
      idx == {i \in 1..Len(q) : q[i] = ev.tag}
      m1 == Check(m, "C10.event_only_between_open_and_close", IsOpen(m, k), ev)
      m2 == IF Len(q) > 0 /\ Head(q) = ev.tag THEN m1
            ELSE IF idx # {} THEN Flag(m1, "C10.frames_lossless_and_in_order", ev)
                 ELSE Flag(m1, "C10.frame_event_without_valid_frame_fed", ev)
      q2 == IF idx = {} THEN q ELSE SubSeq(q, Min(idx) + 1, Len(q))
      m3 == [m2 EXCEPT !.pend = Put(@, pk, q2), !.quietLost = @ \ {<<pk[1], pk[2], ev.tag>>}]
  IN IF ev.id = 0 /\ ev.autopilot = 3
     THEN [m3 EXCEPT !.apHb = Append(@, [ep |-> ev.ep, inst |-> ev.inst, sys |-> ev.sys, comp |-> ev.comp, seq |-> ev.seq, t |-> ev.t])]
     ELSE m3

OnEvOther(m, ev) == Check(m, "C10.event_only_between_open_and_close", IsOpen(m, Key(ev)), ev)

OnEvClose(m, ev) ==
  LET k == Key(ev)
      pk == <<ev.ep, Get(m.instPeer, k, 0)>>
      q == Get(m.pend, pk, <<>>)
      marks == {i \in 1..Len(q) : q[i] = -1}
      \* frames fed before the fault that closed this channel were all delivered
      lostBefore == marks # {} /\ Min(marks) > 1
      q2 == IF marks = {} THEN q ELSE SubSeq(q, Min(marks) + 1, Len(q))
      m1 == Check(m, "C10.close_exactly_once_and_last", IsOpen(m, k), ev)
      m2a == Check(m1, "C10.nothing_lost_before_close", m.closing \/ m.consumerStopped \/ ~lostBefore, ev)
      \* a custom transport's channel closes for a reason the scenario gave: an injected read error, a failed or blocked
      \* transport write, an item that could not be encoded (C13 allows closing then) - never because of what was fed
      caused == marks # {} \/ ev.ep \in DOMAIN m.wfault \/ ev.ep \in DOMAIN m.blockedAt
                \/ \E i \in 1..Len(m.calls) : m.calls[i].bad # ""
      \* a connection the scenario keeps feeding (conf.idle_active) has no reason to close either, whatever its transport
      keptActive == \E i \in 1..Len(m.conf.idle_active) : m.conf.idle_active[i] = <<ev.ep, ev.inst>>
      m2 == Check(m2a, "C10.close_event_has_a_cause",
                  m.closing \/ caused \/ (m.kinds[ev.ep + 1] # "custom" /\ ~keptActive), ev)
      cq == Get(m.causes, pk, <<>>)
      \* custom transports: the very error the transport returned (the harness injects plain, deadline, EOF, closed ... errors)
      m3 == Check(m2, "C14.close_event_carries_the_cause",
                  marks = {} \/ m.closing \/
                    (ev.cause # "nil" /\ (m.kinds[ev.ep + 1] # "custom" \/ (cq # <<>> /\ ev.cause = cq[1]))), ev)
  \* a close event that is part of Close itself does not make the endpoint's history before Close any less steady
  IN [m3 EXCEPT !.closed = @ \cup {k}, !.pend = Put(@, pk, q2),
                !.causes = Put(@, pk, IF marks = {} \/ cq = <<>> THEN cq ELSE Tail(cq)), !.disturbed = IF m.closing THEN @ ELSE @ \cup {ev.ep},
                !.closeTimes = Append(@, [ep |-> ev.ep, inst |-> ev.inst, t |-> ev.t, seq |-> ev.seq, cause |-> ev.cause, closing |-> m.closing])]

OnEv(m, ev) ==
  CASE ev.type = "open" -> OnEvOpen(m, ev)
    [] ev.type = "frame" -> OnEvFrame(m, ev)
    [] ev.type = "close" -> OnEvClose(m, ev)
    [] ev.type = "streamreq" -> [OnEvOther(m, ev) EXCEPT !.srEv = Append(@, [ep |-> ev.ep, inst |-> ev.inst, sys |-> ev.sys, comp |-> ev.comp])]
    [] OTHER -> OnEvOther(m, ev)

\* ------------------------------------------------------------------ C11 / C13: writes and wire output
OnWInv(m, ev) ==
  LET openNow == m.opened \ m.closed
      c == [call |-> ev.call, g |-> ev.g, kind |-> ev.kind, target |-> ev.target, tep |-> ev.tep, tinst |-> ev.tinst,
            tag |-> ev.tag, bad |-> ev.bad, fv |-> ev.fv, foreign |-> ev.foreign, seq |-> ev.seq, openAtInvoke |-> openNow, closedAtInvoke |-> m.closed,
            closingAtInvoke |-> m.closing]
  IN [m EXCEPT !.calls = Append(@, c)]

OnWRet(m, ev) ==
  Check([m EXCEPT !.ret = @ \cup {ev.call}], "C12.write_call_never_panics", ~ev.panic, ev)

CallOfTag(m, tag) ==
  LET S == {i \in 1..Len(m.calls) : m.calls[i].tag = tag} IN IF S = {} THEN 0 ELSE Min(S)

IsTo(c) == c.kind \in {"MsgTo", "FrameTo"}
IsExcept(c) == c.kind \in {"MsgExcept", "FrameExcept"}
IsFrameKind(c) == c.kind \in {"FrameAll", "FrameTo", "FrameExcept"}

\* may this call's item appear on the wire of endpoint ep at all.  Channels are instances <<ep, inst>>; a custom
\* endpoint re-provides its transport to a new instance after a failure, so the exclusion / addressing of an
\* instance is only held against the endpoint's wire while that instance is the only one the endpoint ever had
\* and no fault has been injected there.
Named(c) == c.target \notin {"foreign", "unknown", "none"}
OnlyInstance(m, c) == {k \in m.opened : k[1] = c.tep} = {<<c.tep, c.tinst>>} /\ c.tep \notin m.faulted
TargetPeer(m, c) == Get(m.instPeer, <<c.tep, c.tinst>>, 0)
Coexisting(m, ep) == m.kinds[ep + 1] \notin OneAtATimeKinds      \* server endpoints: one live instance per peer
MayReachWire(m, c, w) ==
  IF IsTo(c) THEN Named(c) /\ c.tep = w[1] /\ TargetPeer(m, c) = w[2] /\ <<c.tep, c.tinst>> \notin c.closedAtInvoke
  ELSE IF IsExcept(c) THEN ~(Named(c) /\ c.tep = w[1] /\ TargetPeer(m, c) = w[2] /\ (Coexisting(m, w[1]) \/ OnlyInstance(m, c)))
  ELSE TRUE
\* endpoint-level version (used for endpoints with a single channel instance): the wire of that instance
PeerOfEp(m, ep) == LET K == {k \in m.opened : k[1] = ep}
                   IN IF Cardinality(K) = 1 THEN Get(m.instPeer, CHOOSE k \in K : TRUE, 0) ELSE 0
MayReach(m, c, ep) == MayReachWire(m, c, <<ep, PeerOfEp(m, ep)>>)

\* The node has been idle for a whole interval, its consumer never stopped, no goroutine ever held at a gate: what was fed
\* to a channel that is still open and never saw a fault, over a transport that does not lose data, has had its chance.
\* Remembered here, judged at the end (a frame that still arrives later is late, not lost).
ReliableKinds == {"custom", "tcp_server", "tcp_client"}
OnQuiesced(m, ev) ==
  LET judged(pk) == LET insts == {k \in m.opened : k[1] = pk[1] /\ Get(m.instPeer, k, 0) = pk[2]}
                    IN /\ m.kinds[pk[1] + 1] \in ReliableKinds
                       \* a server endpoint has one channel per peer: what happened to another peer's connection does not matter
                       /\ (Coexisting(m, pk[1]) \/ (pk[1] \notin m.disturbed /\ pk[1] \notin m.faulted))
                       /\ \A i \in 1..Len(m.pend[pk]) : m.pend[pk][i] # -1
                       /\ Cardinality(insts) = 1 /\ insts \cap m.closed = {}
      lost == UNION {{<<pk[1], pk[2], m.pend[pk][i]>> : i \in {j \in 1..Len(m.pend[pk]) : m.pend[pk][j] # -1}} :
                       pk \in {x \in DOMAIN m.pend : judged(x)}}
  IN IF m.consumerStopped \/ m.everHeld THEN m ELSE [m EXCEPT !.quietLost = @ \cup lost]

ForeignId == 54321
Le4(p, o) == p[o + 1] + 256 * p[o + 2] + 65536 * p[o + 3]     \* 24 bits are enough for tags

ExpectedComp(m) == IF m.conf.comp = 0 THEN 1 ELSE m.conf.comp

\* an originated frame on ep: identity, version, flags, per-link sequence, checksum, signature
OrigClauses(m, ev, f, def) ==
  LET keyed == Len(m.conf.outkey) > 0
      fresh == ev.ep \in m.newInst
      n == Get(m.nOrig, Wire(ev), 0)
      seqOk == f.seq = n % 256 \/ (fresh /\ f.seq = 0)
  IN << <<"C09.configured_identity", f.sys = m.conf.sys /\ f.comp = ExpectedComp(m)>>,
        <<"C09.configured_version", f.v = m.conf.version>>,
        <<"C09.compat_flags_zero_signed_iff_key", f.v = 1 \/ (f.cflag = 0 /\ f.iflag = (IF keyed THEN 1 ELSE 0))>>,
        <<"C09.per_link_sequence_gapless", seqOk>>,
        <<"C09.checksum_for_crc_extra", f.ck = Checksum(f, CrcExtra(FromGo(Defs[def])))>>,
        <<"C09.v1_payload_is_exactly_the_base_fields", f.v = 2 \/ Len(f.payload) = SizeBase(FromGo(Defs[def]))>>,
        <<"C09.v2_payload_truncated_never_longer_than_extended", f.v = 1 \/ (Len(f.payload) <= SizeExt(FromGo(Defs[def]))
                                                                        /\ (Len(f.payload) <= 1 \/ f.payload[Len(f.payload)] # 0))>>,
        <<"C06.node_signature_valid", ~(keyed /\ IsSigned(f)) \/ f.sig = Sign(m.conf.outkey, f)>>,
        <<"C06.node_link_id_constant", ~(keyed /\ IsSigned(f)) \/ Get(m.linkId, Wire(ev), f.link) = f.link \/ fresh>>,
        <<"C07.node_timestamps_never_decrease", ~(keyed /\ IsSigned(f)) \/ fresh \/ ~Lt(f.ts, Get(m.lastTs, Wire(ev), <<0>>))>> >>

ApplyClauses(m, cl, ev) ==
  FoldLeft(LAMBDA mm, c : Check(mm, c[1], c[2], ev), m, cl)

AfterOrig(m, ev, f) ==
  LET fresh == ev.ep \in m.newInst
  IN [m EXCEPT !.nOrig = Put(@, Wire(ev), f.seq + 1), !.newInst = @ \ {ev.ep},
               !.linkId = IF IsSigned(f) THEN Put(@, Wire(ev), f.link) ELSE @,
               !.lastTs = IF IsSigned(f) THEN Put(@, Wire(ev), f.ts) ELSE @]

OnOutTagged(m, ev, f) ==
  LET tag == Le4(f.payload, 0)
      ci == CallOfTag(m, tag)
      c == m.calls[ci]
      prev == Get(m.outs, Wire(ev), <<>>)
      sameG == {i \in 1..Len(prev) : prev[i].g = c.g}
      lastCall == IF sameG = {} THEN 0 ELSE prev[Max(sameG)].call
      m1 == Check(m, "C11.only_submitted_items_on_the_wire", ci # 0, ev)
  IN IF ci = 0 THEN m1
     ELSE LET m2 == Check(m1, "C11.exactly_once_per_channel", \A i \in 1..Len(prev) : prev[i].tag # tag, ev)
              m3 == Check(m2, "C11.reaches_only_the_addressed_channels", MayReachWire(m, c, Wire(ev)), ev)
              m4 == Check(m3, "C11.fifo_per_writer_per_channel", c.call > lastCall, ev)
              m5 == IF IsFrameKind(c)
                    THEN Check(Check(m4, "C11.forwarded_frame_keeps_its_header", f.sys = 77 /\ f.comp = 88 /\ f.seq = tag % 256 /\ f.v = c.fv, ev),
                               \* ... and is still a valid frame of its own version: checksum right for the bytes sent, v1 payload untruncated
                               "C11.forwarded_frame_is_valid",
                               \* (a frame of an id the node's dialect lacks is forwarded as it is: nothing to validate it against)
                               c.bad # "" \/ c.foreign \/ (f.ck = Checksum(f, CrcExtra(FromGo(Defs[TagDef])))
                                             /\ (f.v = 2 \/ Len(f.payload) = SizeBase(FromGo(Defs[TagDef])))), ev)
                    ELSE AfterOrig(ApplyClauses(m4, OrigClauses(m4, ev, f, TagDef), ev), ev, f)
          IN [m5 EXCEPT !.outs = Put(@, Wire(ev), Append(prev, [tag |-> tag, g |-> c.g, call |-> c.call, seq |-> ev.seq]))]

\* ------------------------------------------------------------------ C16: heartbeats and stream requests
\* "common_rev", "common_sr_first": the messages of common declared in another order (a dialect is a set of messages)
FullDialects == {"common", "common_rev", "common_sr_first", "common_v0"}
DialectVersion(m) == IF m.conf.dialect = "common_v0" THEN 0 ELSE 3
HbWanted(m) == ~m.conf.hb_disable /\ m.conf.dialect \in FullDialects \cup {"no66"}
SrWanted(m) == m.conf.sr_enable /\ m.conf.dialect \in FullDialects

FieldVal(vals, i) == Val(SubSeq(vals[i][1], 1, IF Len(vals[i][1]) > 3 THEN 3 ELSE Len(vals[i][1])))

OnOutHeartbeat(m, ev, f) ==
  LET d == Decode(FromGo(Defs[HbDef]), f.payload, f.v = 2)
      v == d.vals      \* Type, Autopilot, BaseMode, CustomMode, SystemStatus, MavlinkVersion (declaration order)
      wantType == IF m.conf.hb_systype = 0 THEN 6 ELSE m.conf.hb_systype
      m1 == Check(m, "C16.no_heartbeat_when_disabled_or_not_in_dialect", HbWanted(m), ev)
      m2 == Check(m1, "C16.heartbeat_fields",
                  d.ok /\ FieldVal(v, 1) = wantType /\ FieldVal(v, 2) = m.conf.hb_autopilot /\ FieldVal(v, 3) = 0
                       /\ FieldVal(v, 4) = 0 /\ FieldVal(v, 5) = 4 /\ FieldVal(v, 6) = DialectVersion(m), ev)
      m3 == AfterOrig(ApplyClauses(m2, OrigClauses(m2, ev, f, HbDef), ev), ev, f)
  IN [m3 EXCEPT !.hb = Put(@, ev.ep, Append(Get(@, ev.ep, <<>>), ev.t))]

OnOutStreamReq(m, ev, f) ==
  LET d == Decode(FromGo(Defs[SrDef]), f.payload, f.v = 2)
      v == d.vals      \* TargetSystem, TargetComponent, ReqStreamId, ReqMessageRate, StartStop
      rate == IF m.conf.sr_freq = 0 THEN 4 ELSE m.conf.sr_freq
      m1 == Check(m, "C16.no_stream_request_unless_enabled", SrWanted(m), ev)
      m2 == Check(m1, "C16.stream_request_fields", d.ok /\ FieldVal(v, 4) = rate /\ FieldVal(v, 5) = 1, ev)
      m3 == AfterOrig(ApplyClauses(m2, OrigClauses(m2, ev, f, SrDef), ev), ev, f)
  IN [m3 EXCEPT !.sr = Append(@, [ep |-> ev.ep, sys |-> FieldVal(v, 1), comp |-> FieldVal(v, 2), stream |-> FieldVal(v, 3), seq |-> ev.seq, t |-> ev.t])]

OnOut(m, ev) ==
  LET f == ev.f IN
  CASE f.id = 252 /\ Len(f.payload) >= 9 -> OnOutTagged(m, ev, f)
    \* forwarded frames of a message id outside the node's dialect (raw, id 54321) carry their tag in the same place
    [] f.id = ForeignId /\ Len(f.payload) >= 9 -> OnOutTagged(m, ev, f)
    [] f.id = 0 -> OnOutHeartbeat(m, ev, f)
    [] f.id = 66 -> OnOutStreamReq(m, ev, f)
    [] OTHER -> m      \* items the scenario wrote raw with other ids (unencodable probes never reach the wire)

\* ------------------------------------------------------------------ faults
OnTWFail(m, ev) ==
  IF ev.closed THEN m
  ELSE [m EXCEPT !.wfault = Put(@, ev.ep, Get(@, ev.ep, ev.seq)), !.disturbed = @ \cup {ev.ep}]

OnTWBlocked(m, ev) == [m EXCEPT !.blockedAt = Put(@, ev.ep, Get(@, ev.ep, ev.seq)), !.disturbed = @ \cup {ev.ep}]
OnTMode(m, ev) ==
  IF ev.mode = "ok" THEN [m EXCEPT !.releasedAt = Put(@, ev.ep, ev.seq)]
  ELSE [m EXCEPT !.disturbed = @ \cup {ev.ep}]

OnAttempt(m, ev) == [m EXCEPT !.attempts = Append(@, [ep |-> ev.ep, n |-> ev.n, mode |-> ev.mode, t |-> ev.t, seq |-> ev.seq, probe |-> ev.probe])]

OnTimeout(m, ev) ==
  LET w == ev.what IN
  CASE w = "close_return" -> Flag(m, "C12.close_returns", ev)
    [] w = "events_closed" -> Flag(m, "C12.event_channel_closed_after_close", ev)
    [] w = "writers_return" \/ w = "write_return" -> Flag(m, "C12.write_calls_return", ev)
    [] w = "open" -> IF m.closing THEN m ELSE Flag(m, "C10.open_event_arrives", ev)
    [] w = "close" -> IF m.closing THEN m ELSE Flag(m, "C10.close_event_arrives_after_failure", ev)
    [] w = "pace" -> m
    [] OTHER -> Flag(m, "C12.write_calls_return", ev)

\* ------------------------------------------------------------------ end of run
Eps(m) == 0..(Len(m.kinds) - 1)

\* endpoints that had one channel instance, opened, never disturbed before Close
Steady(m, ep) ==
  /\ ep \notin m.disturbed
  /\ Cardinality({k \in m.opened : k[1] = ep}) = 1

OutsOn(m, ep) == Get(m.outs, <<ep, 0>>, <<>>)          \* custom endpoints: the single wire
TagsOn(m, ep) == UNION {{m.outs[w][i].tag : i \in 1..Len(m.outs[w])} : w \in {x \in DOMAIN m.outs : x[1] = ep}}

\* a call that must have reached ep: issued and returned before Close, channel open (event received) before the
\* invoke, endpoint steady, encodable item, addressed
MustReach(m, c, ep) ==
  /\ c.bad = "" /\ ~c.closingAtInvoke /\ c.call \in m.settled
  /\ Steady(m, ep)
  /\ \E k \in c.openAtInvoke : k[1] = ep /\ (IsTo(c) => k = <<c.tep, c.tinst>>)
  /\ MayReach(m, c, ep)
  /\ (IsTo(c) \/ IsExcept(c)) => c.target \notin {"unknown"}

FinalFanout(m, ev) ==
  LET tags == [ep \in Eps(m) |-> TagsOn(m, ep)]
      missing == {x \in {<<i, ep>> : i \in 1..Len(m.calls), ep \in Eps(m)} :
                     MustReach(m, m.calls[x[1]], x[2]) /\ m.calls[x[1]].tag \notin tags[x[2]]}
      m1 == Check(m, "C11.reaches_every_open_channel", missing = {}, ev)
      unret == {m.calls[i].call : i \in 1..Len(m.calls)} \ m.ret
  IN Check(m1, "C12.write_calls_return", unret = {}, ev)

\* C13 (b): after a write failure on ep (transport error or unencodable item) the channel is closed and reported,
\* or it keeps delivering later valid writes
FinalWriteFault(m, ev) ==
  LET unenc == {c \in ToSet(m.calls) : c.bad # "" /\ ~c.closingAtInvoke}
      faultSeq(ep) ==
        LET a == IF ep \in DOMAIN m.wfault THEN {m.wfault[ep]} ELSE {}
            b == {c.seq : c \in {x \in unenc : MayReach(m, x, ep) /\ \E k \in x.openAtInvoke : k[1] = ep}}
        IN a \cup b
      silent(ep) ==
        faultSeq(ep) # {} /\
        LET s == Min(faultSeq(ep))
            later == {c \in ToSet(m.calls) : c.seq > s /\ c.bad = "" /\ ~c.closingAtInvoke /\ c.call \in m.settled /\ MayReach(m, c, ep)
                                               }
            closedAfter == \E i \in 1..Len(m.closeTimes) : m.closeTimes[i].ep = ep /\ ~m.closeTimes[i].closing
        IN later # {} /\ ~closedAfter /\ \A c \in later : c.tag \notin TagsOn(m, ep)
  IN Check(m, "C13.write_failure_closes_or_keeps_delivering", \A ep \in Eps(m) : ~silent(ep), ev)

\* C13 (a): a blocked endpoint keeps a bounded, ordered backlog
FinalBacklog(m, ev) ==
  LET ok(ep) ==
        LET b == m.blockedAt[ep]
            \* what reached the wire from the blocked write on (transport writes are recorded when they complete)
            OnWire == SelectSeq(OutsOn(m, ep), LAMBDA o : o.seq > b)
            \* the calls that address ep, in submission order (one writer goroutine in these scenarios)
            Elig == SelectSeq(m.calls, LAMBDA c : c.bad = "" /\ MayReach(m, c, ep))
            first == IF Len(OnWire) = 0 THEN 0 ELSE LET S == {i \in 1..Len(Elig) : Elig[i].tag = OnWire[1].tag} IN IF S = {} THEN 0 ELSE Min(S)
            afterBlock == Len(SelectSeq(Elig, LAMBDA c : c.seq > b))
        IN \/ ep \notin DOMAIN m.releasedAt \/ afterBlock < 70
           \/ /\ first > 0
              /\ Len(OnWire) \in 64..66
              /\ first + Len(OnWire) - 1 <= Len(Elig)
              /\ \A i \in 1..Len(OnWire) : OnWire[i].tag = Elig[first + i - 1].tag
  IN Check(m, "C13.bounded_backlog_keeps_the_oldest_items_in_order", \A ep \in DOMAIN m.blockedAt : ok(ep), ev)

\* Recorded times are taken by the harness's own goroutines (the event consumer, the fake server): under load a record can be
\* late by tens of milliseconds, which shortens a measured interval that BEGINS with it. Lower bounds therefore allow a third
\* of the nominal interval (+ 5 ms); a delay that is skipped or halved is still far outside.
RecordSlack(nominal) == nominal \div 3 + 5

\* C14: reconnects of client-type endpoints
FinalReconnect(m, ev) ==
  LET period == m.conf.reconnect_ms
      real(ep) == SelectSeq(m.attempts, LAMBDA a : a.ep = ep /\ ~a.probe)
      \* every attempt but the first follows a close event of ep or a failed attempt by [0.9 period, period + 3000]
      okGap(ep) ==
        LET A == real(ep)
        IN \A i \in 2..Len(A) :
             LET prevFail == IF A[i - 1].mode \in {"fail", "refuse", "accept_close"} THEN {A[i - 1].t} ELSE {}
                 closes == {m.closeTimes[j].t : j \in {x \in 1..Len(m.closeTimes) : m.closeTimes[x].ep = ep /\ m.closeTimes[x].seq < A[i].seq}}
                 ref == prevFail \cup closes
             IN ref = {} \/ GapOk(A[i].t - Max(ref), period, RecordSlack(period), 3000)
      \* the harness only sees attempts its fake server accepts: not judged when the server refused or hung before
      firstOk(ep) == Len(real(ep)) = 0 \/ ep \in m.unobservable \/ real(ep)[1].t - m.tInit <= 1000
      \* every failure (close event before Close, failed attempt) that Close leaves enough time is followed by a new attempt
      failures(ep) == {[t |-> m.closeTimes[j].t, seq |-> m.closeTimes[j].seq] :
                          j \in {x \in 1..Len(m.closeTimes) : m.closeTimes[x].ep = ep /\ ~m.closeTimes[x].closing}}
                      \cup {[t |-> real(ep)[j].t, seq |-> real(ep)[j].seq] :
                          j \in {x \in 1..Len(real(ep)) : real(ep)[x].mode \in {"fail", "refuse"}}}
      \* a UDP "connection" attempt cannot be observed by a fake server: the re-opened channel (open event) stands for it
      opensOf(ep) == SelectSeq(m.openTimes, LAMBDA o : o.ep = ep)
      retried(ep) == \A f \in failures(ep) :
                        \/ (m.tCloseInv >= 0 /\ m.tCloseInv - f.t < period + 500)
                        \/ \E j \in 1..Len(real(ep)) : real(ep)[j].seq > f.seq
                        \/ (m.kinds[ep + 1] = "udp_client" /\ \E j \in 1..Len(opensOf(ep)) : opensOf(ep)[j].seq > f.seq)
      okReopen(ep) ==
        LET O == opensOf(ep)
        IN \A i \in 2..Len(O) :
             LET closes == {m.closeTimes[j].t : j \in {x \in 1..Len(m.closeTimes) : m.closeTimes[x].ep = ep /\ m.closeTimes[x].seq < O[i].seq}}
             IN closes = {} \/ GapOk(O[i].t - Max(closes), period, RecordSlack(period), 3000)
      m0 == Check(m, "C14.reconnects_after_every_failure", \A ep \in Eps(m) : m.kinds[ep + 1] \notin ClientKinds \/ retried(ep), ev)
  IN Check(Check(m0, "C14.reconnect_after_the_delay",
                 \A ep \in Eps(m) : m.kinds[ep + 1] \notin ClientKinds \/ (okGap(ep) /\ (m.kinds[ep + 1] # "udp_client" \/ okReopen(ep))), ev),
           "C14.first_connection_attempt_immediate", \A ep \in Eps(m) : m.kinds[ep + 1] \notin ClientKinds \/ firstOk(ep), ev)

\* C14: idle expiry on timed connections (the scenario says which peers stay silent: conf.idle_silent / idle_active = <<ep, inst>>)
FinalIdle(m, ev) ==
  LET idle == m.conf.idle_ms
      openT(k) == LET S == {i \in 1..Len(m.openTimes) : m.openTimes[i].ep = k[1] /\ m.openTimes[i].inst = k[2]} IN
                  IF S = {} THEN -1 ELSE m.openTimes[Min(S)].t
      closeRec(k) == {m.closeTimes[i] : i \in {x \in 1..Len(m.closeTimes) : m.closeTimes[x].ep = k[1] /\ m.closeTimes[x].inst = k[2]}}
      silentOk(k) == openT(k) < 0 \/ \E c \in closeRec(k) : ~c.closing /\ IdleCloseOk(c.t, openT(k), idle, RecordSlack(idle), 3000)
      activeOk(k) == openT(k) < 0 \/ \A c \in closeRec(k) : c.closing \/ c.t - openT(k) >= 4 * idle
  IN Check(Check(m, "C14.idle_connection_closed_after_timeout", \A k \in ToSet(m.conf.idle_silent) : silentOk(k), ev),
           "C14.active_connection_not_closed", \A k \in ToSet(m.conf.idle_active) : activeOk(k), ev)

\* C16: heartbeat rate and stream requests
FinalAuto(m, ev) ==
  LET period == m.conf.hb_period_ms
      steadyEps == {ep \in Eps(m) : Steady(m, ep) /\ m.kinds[ep + 1] = "custom"}
      window(ep) == LET S == {i \in 1..Len(m.openTimes) : m.openTimes[i].ep = ep} IN m.tEnd - m.openTimes[Min(S)].t
      cnt(ep) == Len(Get(m.hb, ep, <<>>))
      rateOk(ep) == LET w == window(ep)
                        expect == w \div period
                    IN 10 * cnt(ep) >= 5 * expect - 20 /\ 10 * cnt(ep) <= 12 * expect + 20
      \* "spaced by the configured period": judged on long periods only (>= 200 ms), where scheduling jitter is small against
      \* the period: every gap between consecutive heartbeats of a steady channel lies in [period / 2, 2 * period]
      hbOut(ep) == Get(m.hb, ep, <<>>)
      spacedOk(ep) == \A i \in 2..Len(hbOut(ep)) : LET g == hbOut(ep)[i] - hbOut(ep)[i - 1] IN 2 * g >= period /\ g <= 2 * period
      m0 == Check(m, "C16.heartbeats_at_the_configured_period",
                  ~HbWanted(m) \/ m.conf.skip_hb_rate \/ \A ep \in steadyEps : rateOk(ep), ev)
      m1 == Check(m0, "C16.heartbeats_spaced_by_the_period",
                  ~HbWanted(m) \/ m.conf.skip_hb_rate \/ period < 200 \/ \A ep \in steadyEps : spacedOk(ep), ev)
      \* stream requests: per (ep, inst, sys, comp) of the first ardupilot heartbeat event
      keys == {<<m.apHb[i].ep, m.apHb[i].sys, m.apHb[i].comp>> : i \in 1..Len(m.apHb)}
      reqs(k) == SelectSeq(m.sr, LAMBDA r : r.ep = k[1] /\ r.sys = k[2] /\ r.comp = k[3])
      streams(k) == [i \in 1..Len(reqs(k)) |-> reqs(k)[i].stream]
      evs(k) == SelectSeq(m.srEv, LAMBDA r : r.ep = k[1] /\ r.sys = k[2] /\ r.comp = k[3])
      steadyKey(k) == Steady(m, k[1])
      \* the rule (SrRule, also what the model ISr is checked against): the first heartbeat of a sender and every later one
      \* that comes at least 30 s after the sender's last burst trigger the seven requests and one event
      hbT(k) == LET sel == SelectSeq(m.apHb, LAMBDA h : h.ep = k[1] /\ h.sys = k[2] /\ h.comp = k[3])
                IN [i \in 1..Len(sel) |-> sel[i].t]
      due(k) == Due(hbT(k), 30000)
      nDue(k) == Len(due(k))
      \* the i-th burst is the answer to the i-th due heartbeat (sent before the heartbeat's own event is delivered)
      onTime(k) == \A i \in 1..nDue(k) : LET b == reqs(k)[7 * (i - 1) + 1].t IN b - due(k)[i] >= -1000 /\ b - due(k)[i] <= 3000
      \* recorded times are the consumer's, the code compares its own: a heartbeat within 400 ms of the boundary is not judged
      nearBoundary(k) == \E i \in 1..Len(hbT(k)), j \in 1..Len(reqs(k)) :
                            LET d == hbT(k)[i] - reqs(k)[j].t IN d > 30000 - 400 /\ d < 30000 + 400
      wanted(k) == FlattenSeq([i \in 1..nDue(k) |-> Streams])
      \* scenarios that mute the wire (thousands of senders in one burst: requests may overflow the 64-item queue, which C13
      \* allows) are judged on the stream-requested events alone: one per due heartbeat, none besides
      okKey(k) == ~steadyKey(k) \/ nearBoundary(k)
                  \/ IF m.conf.sr_events_only THEN Len(evs(k)) = nDue(k)
                     ELSE (streams(k) = wanted(k) /\ Len(evs(k)) = nDue(k) /\ onTime(k))
      stray == {i \in 1..Len(m.sr) : <<m.sr[i].ep, m.sr[i].sys, m.sr[i].comp>> \notin keys}
      m2 == Check(m1, "C16.exactly_the_seven_stream_requests_once_per_sender", ~SrWanted(m) \/ \A k \in keys : okKey(k), ev)
      m3 == Check(m2, "C16.stream_requests_only_to_ardupilot_senders_on_their_channel", stray = {}, ev)
      \* endpoints with several channels (a server and its peers) that were never disturbed: "each (channel, system,
      \* component)" - the same sender ids heard on two channels of one endpoint are two senders. Judged on the events (they
      \* carry the channel instance): one stream-requested event per due heartbeat of <<ep, inst, sys, comp>>, none besides.
      \* A key with two heartbeats within 400 ms of the 30 s boundary is not judged (recorded times are the consumer's).
      chKeys == {<<m.apHb[i].ep, m.apHb[i].inst, m.apHb[i].sys, m.apHb[i].comp>> :
                   i \in {j \in 1..Len(m.apHb) : ~Steady(m, m.apHb[j].ep) /\ m.apHb[j].ep \notin m.disturbed}}
      chHbT(k) == LET sel == SelectSeq(m.apHb, LAMBDA h : h.ep = k[1] /\ h.inst = k[2] /\ h.sys = k[3] /\ h.comp = k[4])
                  IN [i \in 1..Len(sel) |-> sel[i].t]
      chEvs(k) == SelectSeq(m.srEv, LAMBDA r : r.ep = k[1] /\ r.inst = k[2] /\ r.sys = k[3] /\ r.comp = k[4])
      chNear(k) == \E i, j \in 1..Len(chHbT(k)) : LET d == chHbT(k)[j] - chHbT(k)[i] IN d > 30000 - 400 /\ d < 30000 + 400
      chOk(k) == chNear(k) \/ Len(chEvs(k)) = Len(Due(chHbT(k), 30000))
      m4 == Check(m3, "C16.stream_requested_once_per_channel_and_sender", ~SrWanted(m) \/ \A k \in chKeys : chOk(k), ev)
  IN Check(m4, "C16.no_stream_request_unless_enabled", SrWanted(m) \/ (Len(m.sr) = 0 /\ Len(m.srEv) = 0), ev)

OnFinal(m, ev) ==
  LET m0 == [m EXCEPT !.tEnd = ev.t]
      initFailed == ~m.initOk
      m1 == Check(m0, "C12.no_goroutine_left", ev.goroutines_left <= 0, ev)
      m2 == Check(m1, "C12.listening_ports_released", ev.ports_rebound, ev)
      m3 == Check(m2, "C12.custom_transport_closed_exactly_once", initFailed \/ \A i \in 1..Len(ev.custom_close) : ev.custom_close[i] = 1, ev)
      m4 == Check(m3, "C12.event_channel_closed_after_close", initFailed \/ ev.events_closed, ev)
      m4b == Check(m4, "C12.accepted_and_dialled_connections_released",
                   ev.conns_not_released = 0 /\ ev.serial_not_closed = 0, ev)
      m4c0 == Check(m4b, "C10.delivered_frames_stay_intact", ev.frames_changed_after_delivery = 0, ev)
      m4c == Check(m4c0, "C12.no_socket_left_open", ev.sockets_left = 0, ev)
      m5a == Check(m4c, "C12.close_returns", initFailed \/ m.closeRet, ev)
      m5 == Check(m5a, "C10.every_valid_frame_delivered", m.quietLost = {}, ev)
  IN IF initFailed THEN m5
     ELSE FinalIdle(FinalReconnect(FinalBacklog(FinalWriteFault(FinalFanout(FinalAuto(m5, ev), ev), ev), ev), ev), ev)

\* ------------------------------------------------------------------ dispatcher
Step(m, ev) ==
  CASE ev.e = "Scenario" -> [m EXCEPT !.conf = ev.conf, !.kinds = ev.kinds]
    [] ev.e = "Init" -> Check([m EXCEPT !.initOk = ev.ok, !.tInit = ev.t], "C09.bad_configuration_refused_at_initialization",
                              m.conf.expect_init = "any" \/ (m.conf.expect_init = "fail") = ~ev.ok, ev)
    [] ev.e = "Feed" -> OnFeed(m, ev)
    [] ev.e = "ReadErr" -> OnReadErr(m, ev)
    [] ev.e = "Ev" -> OnEv(m, ev)
    [] ev.e = "WInv" -> OnWInv(m, ev)
    [] ev.e = "WRet" -> OnWRet(m, ev)
    [] ev.e = "Out" -> OnOut(m, ev)
    [] ev.e = "TWFail" -> OnTWFail(m, ev)
    [] ev.e = "TWBlocked" -> OnTWBlocked(m, ev)
    [] ev.e = "TMode" -> OnTMode(m, ev)
    [] ev.e = "Attempt" -> OnAttempt(m, ev)
    [] ev.e = "LMode" -> IF ev.mode \in {"refuse", "hang"} /\ Len(m.attempts) = 0
                         THEN [m EXCEPT !.unobservable = @ \cup {ev.ep}] ELSE m
    [] ev.e = "Consumer" -> IF ev.run THEN m ELSE [m EXCEPT !.consumerStopped = TRUE]
    [] ev.e = "Quiesced" -> IF m.closing THEN m ELSE OnQuiesced([m EXCEPT !.settled = m.ret], ev)
    [] ev.e = "Held" -> [m EXCEPT !.everHeld = TRUE]
    [] ev.e = "CloseInv" -> [m EXCEPT !.closing = TRUE, !.tCloseInv = ev.t]
    [] ev.e = "CloseRet" -> [m EXCEPT !.closeRet = TRUE]
    [] ev.e = "Timeout" -> OnTimeout(m, ev)
    [] ev.e = "Panic" -> Flag(m, "C12.no_panic", ev)
    [] ev.e = "Final" -> OnFinal(m, ev)
    [] OTHER -> m
=============================================================================
