CONSTANTS
  e1 = e1
  e2 = e2
  w1 = w1
  w2 = w2
  Eps = {e1}
  Kind <- KindServer1
  MaxCh = 2
  QCap = 1
  Writers = {}
  NWrites = 0
  WKinds = {"all"}
  MaxIn = 2
  InKinds = {"ok", "bad", "fatal"}
  HbTicks = 0
  SrN = 0
  MaxDialFail = 1
  TModes = {"ok"}
  EnvBudget = 2
  StartOpen = FALSE
  AllowClose = FALSE
  Design = "repaired"
INIT Init
NEXT Next
INVARIANT NoSendOnClosedEvents
INVARIANT MonitorsGreen
INVARIANT OneAtATimeInv
INVARIANT StreamRequestsBounded
INVARIANT NothingOwedAtQuiescence
INVARIANT WriterAlive
VIEW View
CHECK_DEADLOCK FALSE
