CONSTANTS Variant = "old"
          MaxEntries = 4
INIT Init
NEXT Next
CHECK_DEADLOCK FALSE
INVARIANT FileIsEntries
INVARIANT CutsReadBack
INVARIANT FailureLeavesPrefix
INVARIANT Reported
