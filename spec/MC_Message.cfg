CONSTANTS MaxFields = 2
          MaxLen = 5
INIT Init
NEXT Next
CHECK_DEADLOCK FALSE
INVARIANT Permutation
INVARIANT StableExtLast
INVARIANT ExtAfterBase
INVARIANT SizesAddUp
INVARIANT RoundTrip
INVARIANT V2ZeroInsensitive
INVARIANT V1ExactLength
INVARIANT VersionsAgree
