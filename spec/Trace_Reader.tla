----------------------------- MODULE Trace_Reader -----------------------------
(* Code -> spec conformance for reader runs (STREAM records).  Stateful only  *)
(* in `ref`: the first record of a group (same stream, same fault, same       *)
(* configuration, different chunking) sets the reference result sequence, the *)
(* others must equal it.                                                      *)
EXTENDS Integers, Sequences, TLC, Json, IOUtils

Trace == ndJsonDeserialize(IOEnv.TRACE)
DefsFile == IF IOEnv.DEFS = "-" THEN <<>> ELSE JsonDeserialize(IOEnv.DEFS)

P == INSTANCE PReader WITH Defs <- DefsFile
PW == INSTANCE PWriter WITH Defs <- DefsFile
PR == INSTANCE PRoute WITH Defs <- DefsFile
PT == INSTANCE PTlog WITH Defs <- DefsFile

VARIABLES l, ref, tss

Init == l = 1 /\ ref = [g |-> -1, proj |-> <<>>] /\ tss = <<>>

NextStream(r) ==
  LET bad0 == P!Check_STREAM(r)
      same == r.g # ref.g \/ P!Proj(r.results) = ref.proj
      bad == IF same THEN bad0 ELSE bad0 \cup {"independent_of_chunking"}
  IN /\ IF bad = {} THEN TRUE ELSE PrintT(<<"REJECT", l, r.seq, r.e, bad>>)
     /\ ref' = IF r.g # ref.g THEN [g |-> r.g, proj |-> P!Proj(r.results)] ELSE ref
     /\ UNCHANGED tss

NextWinSet(r) ==
  LET bad == P!Check_WINSET(r)
  IN /\ IF bad = {} THEN TRUE ELSE PrintT(<<"REJECT", l, r.seq, r.e, bad>>)
     /\ tss' = P!AlphabetTs(r)
     /\ UNCHANGED ref

NextWinHist(r) ==
  LET bad == P!Check_WINHIST(r, tss)
  IN /\ IF bad = {} THEN TRUE ELSE PrintT(<<"REJECT", l, r.seq, r.e, bad>>)
     /\ UNCHANGED <<ref, tss>>

NextWriter(r) ==
  LET fin == IF r.e = "WLINK" THEN PW!Check_WLINK(r) ELSE [bad |-> PW!Check_WINIT(r), firstbad |-> 0]
  IN /\ IF fin.bad = {} THEN TRUE ELSE PrintT(<<"REJECT", l, r.seq, r.e, fin.bad, fin.firstbad>>)
     /\ UNCHANGED <<ref, tss>>

NextConc(r) ==
  LET bad == P!Check_CONC(r)
  IN /\ IF bad = {} THEN TRUE ELSE PrintT(<<"REJECT", l, r.seq, r.e, bad>>)
     /\ UNCHANGED <<ref, tss>>

NextRoute(r) ==
  LET bad == IF r.e = "ROUTE" THEN PR!Check_ROUTE(r) ELSE PR!Check_FIX(r)
  IN /\ IF bad = {} THEN TRUE ELSE PrintT(<<"REJECT", l, r.seq, r.e, bad>>)
     /\ UNCHANGED <<ref, tss>>

NextTlog(r) ==
  LET bad == IF r.e = "TLOGW" THEN PT!Check_TLOGW(r) ELSE PT!Check_TLOGR(r)
  IN /\ IF bad = {} THEN TRUE ELSE PrintT(<<"REJECT", l, r.seq, r.e, bad>>)
     /\ UNCHANGED <<ref, tss>>

Next ==
  /\ l <= Len(Trace)
  /\ LET r == Trace[l]
     IN CASE r.e = "STREAM"  -> NextStream(r)
          [] r.e = "WINSET"  -> NextWinSet(r)
          [] r.e = "WINHIST" -> NextWinHist(r)
          [] r.e \in {"WLINK", "WINIT"} -> NextWriter(r)
          [] r.e \in {"ROUTE", "FIX"} -> NextRoute(r)
          [] r.e = "CONC" -> NextConc(r)
          [] r.e \in {"TLOGW", "TLOGR"} -> NextTlog(r)
          [] OTHER -> PrintT(<<"REJECT", l, r.seq, r.e, {"H_unknown_record_kind"}>>) /\ UNCHANGED <<ref, tss>>
  /\ l' = l + 1

Done == (l = Len(Trace) + 1) => PrintT(<<"WALKED", Len(Trace)>>)
=============================================================================
