CONSTANTS
  Eps = {"e1"}
  Kind <- GK1
  MaxCh = 2
  QCap = 2
  Writers = {"w1"}
  NWrites = 1
  WKinds = {"all"}
  MaxIn = 3
  InKinds = {"ok", "bad", "fatal"}
  HbTicks = 1
  SrN = 0
  MaxDialFail = 0
  TModes = {"ok"}
  EnvBudget = 2
  StartOpen = FALSE
  AllowClose = TRUE
  Design = "repaired"
INIT GInit
NEXT GNext
INVARIANT Emit
CHECK_DEADLOCK FALSE
