------------------------------- MODULE INode -------------------------------
(* Layer I - implementation-shaped model of gomavlib.Node                    *)
(* (node.go, channel.go, channel_provider.go, endpoint_*.go,                 *)
(* node_heartbeat.go, node_stream_request.go).                               *)
(*                                                                           *)
(* One action per channel operation of the Go code: `select` is a            *)
(* nondeterministic choice among its ready cases, an unbuffered Go channel   *)
(* is a rendezvous action fusing the sender site with the receiver site, a   *)
(* closed Go channel is a boolean, chWrite is a bounded sequence, wg a       *)
(* counter.  Environment actions (bytes arrive, transport write mode          *)
(* changes, consumer stops/resumes, application writes, Close) are separate,  *)
(* independently enabled steps so that TLC explores every race.               *)
(*                                                                           *)
(* Design selects the code that is modelled:                                 *)
(*   "repaired" - /repo as it is now (pushEvent reports delivery, the reader  *)
(*                stops at the first undelivered event, a failed write does   *)
(*                not kill the writer routine)                                *)
(*   "pinned"   - the pinned commit, kept to show what TLC finds on it        *)
(*                (MC_Node_*_pinned.cfg)                                      *)
(*                                                                           *)
(* Compact monitors (variable mon) restate the PNode clauses on the abstract  *)
(* events of the model; they keep counters and last indices, never histories. *)
EXTENDS Integers, Sequences, FiniteSets, TLC

CONSTANTS Eps,         \* endpoints
          Kind,        \* [Eps -> {"custom", "client", "server"}]
          MaxCh,       \* channel instances per endpoint (bounds environment faults / peers)
          QCap,        \* chWrite capacity (64 in the code)
          Writers,     \* application writer goroutines
          NWrites,     \* writes per writer
          WKinds,      \* subset of {"all", "to", "except"}
          MaxIn,       \* incoming read results per channel instance
          InKinds,     \* read results the environment may deliver: subset of {"ok", "bad", "fatal", "ap"}
          HbTicks,     \* heartbeat ticks (0 = heartbeat disabled)
          SrN,         \* stream requests sent per ardupilot heartbeat (7 in the code; 0 = disabled)
          MaxDialFail, \* failed connects per client endpoint
          TModes,      \* transport write modes the environment may switch to: subset of {"ok", "block", "fail"}
          EnvBudget,   \* consumer toggles + transport mode switches
          StartOpen,   \* TRUE: first channel of every endpoint is already open (startup is not the subject)
          AllowClose,  \* FALSE: the application never calls Close
          Design       \* "repaired" | "pinned"

Chan == Eps \X (1..MaxCh)
Ep(c) == c[1]
OneAtATime(e) == Kind[e] # "server"
Repaired == Design = "repaired"

VARIABLES
  term, loop, todoP, todoC, chans, wg, evClosed, doneClosed,       \* node
  ppc, pterm, pfirst, pcnt, dialFails, tclosed,                     \* providers / endpoints
  cpc, ctx, rwcClosed, wterm, cdone, q, rerr, openDeliv,            \* channel run
  rpc, rcur, srLeft, srDone,                                        \* reader
  wpc, wcur, wdead,                                                 \* writer
  inbox, nin, tmode, budget,                                        \* environment
  cons, apc, aidx, areq, closer,                                    \* application
  hpc, hterm, hticks,                                               \* heartbeat
  mon,                                                              \* compact property monitors
  obs                                                               \* last observable event (for scenario generation)

nodeV == <<term, loop, todoP, todoC, chans, wg, evClosed, doneClosed>>
provV == <<ppc, pterm, pfirst, pcnt, dialFails, tclosed>>
chanV == <<cpc, ctx, rwcClosed, wterm, cdone, q, rerr, openDeliv>>
rdV   == <<rpc, rcur, srLeft, srDone>>
wrV   == <<wpc, wcur, wdead>>
envV  == <<inbox, nin, tmode, budget>>
appV  == <<cons, apc, aidx, areq, closer>>
hbV   == <<hpc, hterm, hticks>>
vars  == <<nodeV, provV, chanV, rdV, wrV, envV, appV, hbV, mon, obs>>

NoObs == [e |-> "tau"]

\* ---------------------------------------------------------------------------
\* compact monitors
Mon0 == [est |-> [c \in Chan |-> IF StartOpen /\ c[2] = 1 THEN "open" ELSE "none"],
         last |-> [c \in Chan |-> 0],            \* index of the last frame / parse-error event delivered
         hi |-> [c \in Chan |-> [w \in Writers |-> 0]],   \* last item index of writer w seen on the wire of c
         must |-> [c \in Chan |-> {}],           \* items dispatched to c that are owed to its wire
         srCount |-> [c \in Chan |-> 0],
         bad |-> {}]

Flag(m, name) == [m EXCEPT !.bad = @ \cup {name}]

\* an event reaches the application (PNode: OnEvOpen / OnEvFrame / OnEvOther / OnEvClose)
MonEvent(m, kind, c, idx) ==
  LET st == m.est[c]
      m1 == IF kind = "open" /\ st # "none" THEN Flag(m, "C10.open_exactly_once_and_first") ELSE m
      m2 == IF kind # "open" /\ st # "open" THEN Flag(m1, "C10.event_only_between_open_and_close") ELSE m1
      m3 == IF kind \in {"frame", "perr"} /\ idx # m.last[c] + 1 THEN Flag(m2, "C10.frames_lossless_and_in_order") ELSE m2
      others == {d \in Chan : Ep(d) = Ep(c) /\ d # c /\ m.est[d] = "open"}
      \* once Close is invoked close events may legitimately be missing: the clause is not held against the closing window
      m4 == IF kind = "open" /\ OneAtATime(Ep(c)) /\ others # {} /\ ~term THEN Flag(m3, "C14.one_channel_at_a_time") ELSE m3
  IN [m4 EXCEPT !.est[c] = IF kind = "open" THEN "open" ELSE IF kind = "close" THEN "closed" ELSE st,
                !.last[c] = IF kind \in {"frame", "perr"} THEN idx ELSE @]

\* an item appears on the wire of c (PNode: OnOutTagged)
MonWire(m, c, item) ==
  IF item[1] \notin Writers THEN m       \* heartbeats / stream requests: counted elsewhere
  ELSE LET w == item[1]
           i == item[2]
           m1 == IF i <= m.hi[c][w] THEN Flag(m, "C11.exactly_once_fifo_per_writer") ELSE m
           m2 == IF item[3] = "to" /\ item[4] # c THEN Flag(m1, "C11.reaches_only_the_addressed_channels") ELSE m1
           m3 == IF item[3] = "except" /\ item[4] = c THEN Flag(m2, "C11.reaches_only_the_addressed_channels") ELSE m2
       IN [m3 EXCEPT !.hi[c][w] = i, !.must[c] = @ \ {<<w, i>>}]

\* ---------------------------------------------------------------------------
Init ==
  /\ term = FALSE /\ loop = "sel" /\ todoP = {} /\ todoC = {}
  /\ chans = IF StartOpen THEN {<<e, 1>> : e \in Eps} ELSE {}
  /\ wg = IF StartOpen THEN 2 * Cardinality(Eps) ELSE Cardinality(Eps)
  /\ evClosed = FALSE /\ doneClosed = FALSE
  /\ ppc = [e \in Eps |-> IF StartOpen THEN (IF OneAtATime(e) THEN "wait" ELSE "provide") ELSE "provide"]
  /\ pterm = [e \in Eps |-> FALSE]
  /\ pfirst = [e \in Eps |-> ~StartOpen] /\ pcnt = [e \in Eps |-> IF StartOpen THEN 1 ELSE 0]
  /\ dialFails = [e \in Eps |-> 0] /\ tclosed = [e \in Eps |-> FALSE]
  /\ cpc = [c \in Chan |-> IF StartOpen /\ c[2] = 1 THEN "sel" ELSE "none"] /\ ctx = [c \in Chan |-> FALSE]
  /\ rwcClosed = [c \in Chan |-> FALSE] /\ wterm = [c \in Chan |-> FALSE]
  /\ cdone = [c \in Chan |-> FALSE] /\ q = [c \in Chan |-> <<>>]
  /\ rerr = [c \in Chan |-> "nil"] /\ openDeliv = [c \in Chan |-> StartOpen /\ c[2] = 1]
  /\ rpc = [c \in Chan |-> IF StartOpen /\ c[2] = 1 THEN "read" ELSE "none"] /\ rcur = [c \in Chan |-> <<"none", 0>>]
  /\ srLeft = [c \in Chan |-> 0] /\ srDone = [c \in Chan |-> FALSE]
  /\ wpc = [c \in Chan |-> IF StartOpen /\ c[2] = 1 THEN "sel" ELSE "none"] /\ wcur = [c \in Chan |-> <<>>]
  /\ wdead = [c \in Chan |-> FALSE]
  /\ inbox = [c \in Chan |-> <<>>] /\ nin = [c \in Chan |-> 0]
  /\ tmode = [c \in Chan |-> "ok"] /\ budget = EnvBudget
  /\ cons = "run"
  /\ apc = [w \in Writers |-> "idle"] /\ aidx = [w \in Writers |-> 0]
  /\ areq = [w \in Writers |-> [kind |-> "all", ch |-> CHOOSE c \in Chan : TRUE, item |-> <<>>]]
  /\ closer = "idle"
  /\ hpc = (IF HbTicks > 0 THEN "sel" ELSE "off") /\ hterm = FALSE /\ hticks = HbTicks
  /\ mon = Mon0 /\ obs = NoObs

\* ---------------------------------------------------------------------------
\* transport of channel c is dead underneath reader / writer.
\* custom: the channel-level Close is a no-op (removeCloser); only endpoint.close() closes the transport
TDead(c) == IF Kind[Ep(c)] = "custom" THEN tclosed[Ep(c)] ELSE rwcClosed[c]

Targets(req) ==
  CASE req.kind = "all"    -> chans
    [] req.kind = "to"     -> IF req.ch \in chans THEN {req.ch} ELSE {}
    [] req.kind = "except" -> chans \ {req.ch}

\* Channel.write for every target: select { chWrite <- what | <-ctx.Done | default }.
\* With room and a live context the item is enqueued; a cancelled context may take either ready case;
\* a full queue drops (default) - the monitor is told what is owed to the wire.
DQ(req, skip) ==
  LET T == Targets(req) \ skip IN
  [c \in Chan |-> IF c \in T /\ Len(q[c]) < QCap THEN Append(q[c], req.item) ELSE q[c]]
DMust(m, req, skip) ==
  LET T == Targets(req) \ skip IN
  IF req.item[1] \notin Writers THEN m
  ELSE [m EXCEPT !.must = [c \in Chan |-> IF c \in T /\ Len(q[c]) < QCap /\ ~ctx[c]
                                           THEN m.must[c] \cup {<<req.item[1], req.item[2]>>} ELSE m.must[c]]]
Skippable(req) == SUBSET {c \in Targets(req) : ctx[c]}
Dispatch(req) == \E skip \in Skippable(req) : q' = DQ(req, skip) /\ mon' = DMust(mon, req, skip)

\* ---------------------------------------------------------------------------
\* Application
AppCall(w) ==
  /\ apc[w] = "idle" /\ aidx[w] < NWrites
  /\ \E k \in WKinds, c \in Chan :
        /\ (k = "all" => c = CHOOSE x \in Chan : TRUE)
        /\ areq' = [areq EXCEPT ![w] = [kind |-> k, ch |-> c, item |-> <<w, aidx[w] + 1, k, c>>]]
        /\ obs' = [e |-> "write", w |-> w, kind |-> k, ch |-> c]
  /\ apc' = [apc EXCEPT ![w] = "send"] /\ aidx' = [aidx EXCEPT ![w] = @ + 1]
  /\ UNCHANGED <<nodeV, provV, chanV, rdV, wrV, envV, cons, closer, hbV, mon>>

\* rendezvous chWriteTo / chWriteAll / chWriteExcept : application writer <-> node loop
LoopRecvWrite(w) ==
  /\ loop = "sel" /\ apc[w] = "send"
  /\ Dispatch(areq[w])
  /\ apc' = [apc EXCEPT ![w] = "idle"]
  /\ obs' = NoObs
  /\ UNCHANGED <<nodeV, provV, cpc, ctx, rwcClosed, wterm, cdone, rerr, openDeliv, rdV, wrV, envV, cons, aidx, areq, closer, hbV>>

AppWriteTerm(w) ==
  /\ apc[w] = "send" /\ term
  /\ apc' = [apc EXCEPT ![w] = "idle"] /\ obs' = NoObs
  /\ UNCHANGED <<nodeV, provV, chanV, rdV, wrV, envV, cons, aidx, areq, closer, hbV, mon>>

\* what each goroutine is parked at when Close is invoked (drives the gate hooks of the replay)
Parked ==
  {<<"rd.pushOpen", c>> : c \in {x \in Chan : rpc[x] = "open"}} \cup
  {<<"rd.pushEvent", c>> : c \in {x \in Chan : rpc[x] = "push"}} \cup
  {<<"run.pushClose", c>> : c \in {x \in Chan : cpc[x] = "pushc"}} \cup
  {<<"run.closeChannel", c>> : c \in {x \in Chan : cpc[x] = "closech"}} \cup
  {<<"wr.write", c>> : c \in {x \in Chan : wpc[x] = "write"}} \cup
  {<<"prov.newChannel", <<e, pcnt[e]>>>> : e \in {x \in Eps : ppc[x] = "new"}} \cup
  {<<"hb.send", <<CHOOSE e \in Eps : TRUE, 0>>>> : x \in {y \in {1} : hpc = "send"}}

CloseCall ==
  /\ AllowClose /\ closer = "idle" /\ term' = TRUE /\ closer' = "wait"
  /\ obs' = [e |-> "close", parked |-> Parked, cons |-> cons]
  /\ UNCHANGED <<loop, todoP, todoC, chans, wg, evClosed, doneClosed, provV, chanV, rdV, wrV, envV, cons, apc, aidx, areq, hbV, mon>>

CloseRet ==
  /\ closer = "wait" /\ doneClosed /\ closer' = "ret" /\ obs' = NoObs
  /\ UNCHANGED <<nodeV, provV, chanV, rdV, wrV, envV, cons, apc, aidx, areq, hbV, mon>>

ConsumerToggle ==
  /\ budget > 0 /\ budget' = budget - 1
  /\ cons' = IF cons = "run" THEN "stop" ELSE "run"
  /\ obs' = [e |-> "consumer", run |-> cons = "stop"]
  /\ UNCHANGED <<nodeV, provV, chanV, rdV, wrV, inbox, nin, tmode, apc, aidx, areq, closer, hbV, mon>>

\* ---------------------------------------------------------------------------
\* Environment: traffic and transport behaviour
Arrive(c) ==
  /\ cpc[c] # "none" /\ ~cdone[c] /\ nin[c] < MaxIn
  \* the last instance an endpoint may create cannot fail before Close (otherwise the bound on instances,
  \* not the design, blocks the provider)
  /\ \E r \in (IF c[2] = MaxCh /\ OneAtATime(Ep(c)) THEN InKinds \ {"fatal"} ELSE InKinds) :
        /\ inbox' = [inbox EXCEPT ![c] = Append(@, r)]
        /\ obs' = [e |-> "arrive", ch |-> c, r |-> r]
  /\ nin' = [nin EXCEPT ![c] = @ + 1]
  /\ UNCHANGED <<nodeV, provV, chanV, rdV, wrV, tmode, budget, appV, hbV, mon>>

SetTMode(c) ==
  /\ cpc[c] # "none" /\ ~cdone[c] /\ budget > 0 /\ budget' = budget - 1
  /\ \E m \in TModes : m # tmode[c] /\ tmode' = [tmode EXCEPT ![c] = m] /\ obs' = [e |-> "tmode", ch |-> c, mode |-> m]
  /\ UNCHANGED <<nodeV, provV, chanV, rdV, wrV, inbox, nin, appV, hbV, mon>>

\* ---------------------------------------------------------------------------
\* Provider goroutine (channel_provider.go run + endpoint_*.provide)
NextIdx(e) == pcnt[e] + 1
CanProvide(e) == pcnt[e] < MaxCh
Cur(e) == <<e, pcnt[e]>>
AfterNew(e) == IF OneAtATime(e) THEN "wait" ELSE "provide"

ProvProvide(e) ==
  /\ ppc[e] = "provide"
  /\ CASE Kind[e] = "custom" ->
            /\ IF CanProvide(e) THEN ppc' = [ppc EXCEPT ![e] = "init"]
               ELSE term /\ ppc' = [ppc EXCEPT ![e] = "waitT"]
            /\ UNCHANGED pfirst
       [] Kind[e] = "client" ->
            IF pfirst[e] THEN pfirst' = [pfirst EXCEPT ![e] = FALSE] /\ ppc' = [ppc EXCEPT ![e] = "connect"]
            ELSE ppc' = [ppc EXCEPT ![e] = "backoff"] /\ UNCHANGED pfirst
       [] Kind[e] = "server" -> ppc' = [ppc EXCEPT ![e] = "accept"] /\ UNCHANGED pfirst
  /\ obs' = NoObs
  /\ UNCHANGED <<nodeV, pterm, pcnt, dialFails, tclosed, chanV, rdV, wrV, envV, appV, hbV, mon>>

ProvBackoff(e) ==
  /\ ppc[e] = "backoff"
  \* select { <-time.After(reconnectPeriod) | <-ctx.Done() }: a context that is already cancelled wins at once
  \* (the timer needs the whole period), so the timer branch is taken only while the context is live
  /\ \/ ~pterm[e] /\ ppc' = [ppc EXCEPT ![e] = "connect"]
     \/ pterm[e] /\ ppc' = [ppc EXCEPT ![e] = "exit"]
  /\ obs' = NoObs
  /\ UNCHANGED <<nodeV, pterm, pfirst, pcnt, dialFails, tclosed, chanV, rdV, wrV, envV, appV, hbV, mon>>

ProvConnect(e) ==
  /\ ppc[e] = "connect"
  /\ \/ ~pterm[e] /\ CanProvide(e) /\ ppc' = [ppc EXCEPT ![e] = "init"] /\ UNCHANGED dialFails
     \/ ~pterm[e] /\ dialFails[e] < MaxDialFail /\ dialFails' = [dialFails EXCEPT ![e] = @ + 1]
                  /\ ppc' = [ppc EXCEPT ![e] = "backoff"]
     \/ pterm[e] /\ ppc' = [ppc EXCEPT ![e] = "backoff"] /\ UNCHANGED dialFails     \* dial cancelled
  /\ obs' = NoObs
  /\ UNCHANGED <<nodeV, pterm, pfirst, pcnt, tclosed, chanV, rdV, wrV, envV, appV, hbV, mon>>

ProvAccept(e) ==
  /\ ppc[e] = "accept"
  /\ \/ ~pterm[e] /\ CanProvide(e) /\ ppc' = [ppc EXCEPT ![e] = "init"]   \* a peer connects
     \/ pterm[e] /\ ppc' = [ppc EXCEPT ![e] = "exit"]                     \* listener closed, <-e.terminate
  /\ obs' = NoObs
  /\ UNCHANGED <<nodeV, pterm, pfirst, pcnt, dialFails, tclosed, chanV, rdV, wrV, envV, appV, hbV, mon>>

ProvInit(e) ==
  /\ ppc[e] = "init"
  /\ pcnt' = [pcnt EXCEPT ![e] = @ + 1]
  /\ cpc' = [cpc EXCEPT ![<<e, NextIdx(e)>>] = "created"]
  /\ ppc' = [ppc EXCEPT ![e] = "new"] /\ obs' = NoObs
  /\ UNCHANGED <<nodeV, pterm, pfirst, dialFails, tclosed, ctx, rwcClosed, wterm, cdone, q, rerr, openDeliv, rdV, wrV, envV, appV, hbV, mon>>

\* rendezvous chNewChannel : provider <-> node loop; the loop does ch.start()
LoopRecvNew(e) ==
  /\ loop = "sel" /\ ppc[e] = "new"
  /\ chans' = chans \cup {Cur(e)} /\ wg' = wg + 1
  /\ cpc' = [cpc EXCEPT ![Cur(e)] = "sel"]
  /\ rpc' = [rpc EXCEPT ![Cur(e)] = "open"]
  /\ wpc' = [wpc EXCEPT ![Cur(e)] = "sel"]
  /\ ppc' = [ppc EXCEPT ![e] = AfterNew(e)] /\ obs' = NoObs
  /\ UNCHANGED <<term, loop, todoP, todoC, evClosed, doneClosed, pterm, pfirst, pcnt, dialFails, tclosed,
                 ctx, rwcClosed, wterm, cdone, q, rerr, openDeliv, rcur, srLeft, srDone, wcur, wdead, envV, appV, hbV, mon>>

\* newChannel: case <-n.terminate: ch.close()   (not running => rwc.Close())
ProvNewTerm(e) ==
  /\ ppc[e] = "new" /\ term
  /\ ctx' = [ctx EXCEPT ![Cur(e)] = TRUE]
  /\ rwcClosed' = [rwcClosed EXCEPT ![Cur(e)] = TRUE]
  /\ cpc' = [cpc EXCEPT ![Cur(e)] = "orphan"]
  /\ ppc' = [ppc EXCEPT ![e] = AfterNew(e)] /\ obs' = NoObs
  /\ UNCHANGED <<nodeV, pterm, pfirst, pcnt, dialFails, tclosed, wterm, cdone, q, rerr, openDeliv, rdV, wrV, envV, appV, hbV, mon>>

ProvWait(e) ==
  /\ ppc[e] = "wait"
  /\ \/ cdone[Cur(e)] /\ ppc' = [ppc EXCEPT ![e] = "provide"]
     \/ pterm[e] /\ ppc' = [ppc EXCEPT ![e] = "exit"]
  /\ obs' = NoObs
  /\ UNCHANGED <<nodeV, pterm, pfirst, pcnt, dialFails, tclosed, chanV, rdV, wrV, envV, appV, hbV, mon>>

ProvWaitT(e) ==
  /\ ppc[e] = "waitT" /\ pterm[e] /\ ppc' = [ppc EXCEPT ![e] = "exit"] /\ obs' = NoObs
  /\ UNCHANGED <<nodeV, pterm, pfirst, pcnt, dialFails, tclosed, chanV, rdV, wrV, envV, appV, hbV, mon>>

ProvExit(e) ==
  /\ ppc[e] = "exit" /\ ppc' = [ppc EXCEPT ![e] = "end"] /\ wg' = wg - 1 /\ obs' = NoObs
  /\ UNCHANGED <<term, loop, todoP, todoC, chans, evClosed, doneClosed, pterm, pfirst, pcnt, dialFails, tclosed,
                 chanV, rdV, wrV, envV, appV, hbV, mon>>

\* ---------------------------------------------------------------------------
\* Node loop (node.go run)
LoopRecvCloseCh(c) ==          \* rendezvous chCloseChannel
  /\ loop = "sel" /\ cpc[c] = "closech"
  /\ chans' = chans \ {c} /\ cpc' = [cpc EXCEPT ![c] = "wgdone"] /\ obs' = NoObs
  /\ UNCHANGED <<term, loop, todoP, todoC, wg, evClosed, doneClosed, provV, ctx, rwcClosed, wterm, cdone, q, rerr, openDeliv,
                 rdV, wrV, envV, appV, hbV, mon>>

LoopTerm ==
  /\ loop = "sel" /\ term /\ loop' = "e_hb" /\ obs' = NoObs
  /\ UNCHANGED <<term, todoP, todoC, chans, wg, evClosed, doneClosed, provV, chanV, rdV, wrV, envV, appV, hbV, mon>>

LoopEpiHb ==
  /\ loop = "e_hb"
  /\ IF hpc = "off" THEN loop' = "e_prov" /\ todoP' = Eps /\ UNCHANGED hterm
     ELSE IF ~hterm THEN hterm' = TRUE /\ UNCHANGED <<loop, todoP>>
     ELSE hpc = "end" /\ loop' = "e_prov" /\ todoP' = Eps /\ UNCHANGED hterm
  /\ obs' = NoObs
  /\ UNCHANGED <<term, todoC, chans, wg, evClosed, doneClosed, provV, chanV, rdV, wrV, envV, appV, hpc, hticks, mon>>

LoopEpiProv ==
  /\ loop = "e_prov"
  /\ IF todoP = {} THEN loop' = "e_chan" /\ todoC' = chans /\ UNCHANGED <<todoP, pterm, tclosed>>
     ELSE \E e \in todoP :
            /\ todoP' = todoP \ {e} /\ pterm' = [pterm EXCEPT ![e] = TRUE]
            /\ tclosed' = [tclosed EXCEPT ![e] = TRUE]
            /\ UNCHANGED <<loop, todoC>>
  /\ obs' = NoObs
  /\ UNCHANGED <<term, chans, wg, evClosed, doneClosed, ppc, pfirst, pcnt, dialFails, chanV, rdV, wrV, envV, appV, hbV, mon>>

LoopEpiChan ==
  /\ loop = "e_chan"
  /\ IF todoC = {} THEN loop' = "e_wait" /\ UNCHANGED <<todoC, ctx>>
     ELSE \E c \in todoC : todoC' = todoC \ {c} /\ ctx' = [ctx EXCEPT ![c] = TRUE] /\ UNCHANGED loop
  /\ obs' = NoObs
  /\ UNCHANGED <<term, todoP, chans, wg, evClosed, doneClosed, provV, cpc, rwcClosed, wterm, cdone, q, rerr, openDeliv,
                 rdV, wrV, envV, appV, hbV, mon>>

LoopEpiWait ==
  /\ loop = "e_wait" /\ wg = 0 /\ loop' = "e_evt" /\ obs' = NoObs
  /\ UNCHANGED <<term, todoP, todoC, chans, wg, evClosed, doneClosed, provV, chanV, rdV, wrV, envV, appV, hbV, mon>>

LoopEpiEvt ==
  /\ loop = "e_evt" /\ evClosed' = TRUE /\ loop' = "e_done" /\ obs' = NoObs
  /\ UNCHANGED <<term, todoP, todoC, chans, wg, doneClosed, provV, chanV, rdV, wrV, envV, appV, hbV, mon>>

LoopEpiDone ==
  /\ loop = "e_done" /\ doneClosed' = TRUE /\ loop' = "end" /\ obs' = NoObs
  /\ UNCHANGED <<term, todoP, todoC, chans, wg, evClosed, provV, chanV, rdV, wrV, envV, appV, hbV, mon>>

\* ---------------------------------------------------------------------------
\* pushEvent: select { chEvent <- evt | <-terminate }
CanDeliver == cons = "run" /\ ~evClosed

\* ---------------------------------------------------------------------------
\* Channel.run
RunRecvReader(c) ==            \* readerDone rendezvous in the first select
  /\ cpc[c] = "sel" /\ rpc[c] = "exit"
  /\ cpc' = [cpc EXCEPT ![c] = "a1"] /\ rpc' = [rpc EXCEPT ![c] = "end"] /\ obs' = NoObs
  /\ UNCHANGED <<nodeV, provV, ctx, rwcClosed, wterm, cdone, q, rerr, openDeliv, rcur, srLeft, srDone, wrV, envV, appV, hbV, mon>>

\* pinned design only: the writer routine may have died and blocks on writerDone; nobody receives in the first select
RunCtx(c) ==
  /\ cpc[c] = "sel" /\ ctx[c] /\ cpc' = [cpc EXCEPT ![c] = "b1"] /\ obs' = NoObs
  /\ UNCHANGED <<nodeV, provV, ctx, rwcClosed, wterm, cdone, q, rerr, openDeliv, rdV, wrV, envV, appV, hbV, mon>>

RunStep(c) ==
  /\ \/ cpc[c] = "a1" /\ rwcClosed' = [rwcClosed EXCEPT ![c] = TRUE] /\ cpc' = [cpc EXCEPT ![c] = "a2"] /\ UNCHANGED <<wterm, ctx>>
     \/ cpc[c] = "a2" /\ wterm' = [wterm EXCEPT ![c] = TRUE] /\ cpc' = [cpc EXCEPT ![c] = "a3"] /\ UNCHANGED <<rwcClosed, ctx>>
     \/ cpc[c] = "b1" /\ wterm' = [wterm EXCEPT ![c] = TRUE] /\ cpc' = [cpc EXCEPT ![c] = "b2"] /\ UNCHANGED <<rwcClosed, ctx>>
     \/ cpc[c] = "b3" /\ rwcClosed' = [rwcClosed EXCEPT ![c] = TRUE] /\ cpc' = [cpc EXCEPT ![c] = "b4"] /\ UNCHANGED <<wterm, ctx>>
     \/ cpc[c] = "cancel" /\ ctx' = [ctx EXCEPT ![c] = TRUE] /\ cpc' = [cpc EXCEPT ![c] = "pushc"] /\ UNCHANGED <<rwcClosed, wterm>>
  /\ obs' = NoObs
  /\ UNCHANGED <<nodeV, provV, cdone, q, rerr, openDeliv, rdV, wrV, envV, appV, hbV, mon>>

RunRecvWriter(c) ==            \* writerDone rendezvous
  /\ wpc[c] = "exit"
  /\ \/ cpc[c] = "a3" /\ cpc' = [cpc EXCEPT ![c] = "cancel"]
     \/ cpc[c] = "b2" /\ cpc' = [cpc EXCEPT ![c] = "b3"]
  /\ wpc' = [wpc EXCEPT ![c] = "end"] /\ obs' = NoObs
  /\ UNCHANGED <<nodeV, provV, ctx, rwcClosed, wterm, cdone, q, rerr, openDeliv, rdV, wcur, wdead, envV, appV, hbV, mon>>

RunRecvReader2(c) ==
  /\ cpc[c] = "b4" /\ rpc[c] = "exit"
  /\ cpc' = [cpc EXCEPT ![c] = "cancel"] /\ rpc' = [rpc EXCEPT ![c] = "end"] /\ obs' = NoObs
  /\ UNCHANGED <<nodeV, provV, ctx, rwcClosed, wterm, cdone, q, rerr, openDeliv, rcur, srLeft, srDone, wrV, envV, appV, hbV, mon>>

\* repaired: the close event is pushed only for a channel whose open event was delivered
RunPushClose(c) ==
  /\ cpc[c] = "pushc"
  /\ \/ /\ (Repaired => openDeliv[c]) /\ CanDeliver
        /\ mon' = MonEvent(mon, "close", c, 0) /\ obs' = [e |-> "ev", type |-> "close", ch |-> c]
     \/ /\ (Repaired => openDeliv[c]) /\ term /\ UNCHANGED mon /\ obs' = NoObs
     \/ /\ Repaired /\ ~openDeliv[c] /\ UNCHANGED mon /\ obs' = NoObs
  /\ cpc' = [cpc EXCEPT ![c] = "closech"]
  /\ UNCHANGED <<nodeV, provV, ctx, rwcClosed, wterm, cdone, q, rerr, openDeliv, rdV, wrV, envV, appV, hbV>>

RunCloseChTerm(c) ==
  /\ cpc[c] = "closech" /\ term /\ cpc' = [cpc EXCEPT ![c] = "wgdone"] /\ obs' = NoObs
  /\ UNCHANGED <<nodeV, provV, ctx, rwcClosed, wterm, cdone, q, rerr, openDeliv, rdV, wrV, envV, appV, hbV, mon>>

RunEnd(c) ==
  /\ cpc[c] = "wgdone" /\ wg' = wg - 1 /\ cdone' = [cdone EXCEPT ![c] = TRUE]
  /\ cpc' = [cpc EXCEPT ![c] = "end"] /\ obs' = NoObs
  /\ UNCHANGED <<term, loop, todoP, todoC, chans, evClosed, doneClosed, provV, ctx, rwcClosed, wterm, q, rerr, openDeliv,
                 rdV, wrV, envV, appV, hbV, mon>>

\* ---------------------------------------------------------------------------
\* Reader goroutine (runReader)
RdPushOpen(c) ==
  /\ rpc[c] = "open"
  /\ \/ /\ CanDeliver /\ mon' = MonEvent(mon, "open", c, 0) /\ openDeliv' = [openDeliv EXCEPT ![c] = TRUE]
        /\ rpc' = [rpc EXCEPT ![c] = "read"] /\ obs' = [e |-> "ev", type |-> "open", ch |-> c] /\ UNCHANGED rerr
     \/ /\ term /\ UNCHANGED <<mon, openDeliv>> /\ obs' = NoObs
        /\ IF Repaired THEN rpc' = [rpc EXCEPT ![c] = "exit"] /\ rerr' = [rerr EXCEPT ![c] = "terminated"]
           ELSE rpc' = [rpc EXCEPT ![c] = "read"] /\ UNCHANGED rerr
  /\ UNCHANGED <<nodeV, provV, cpc, ctx, rwcClosed, wterm, cdone, q, rcur, srLeft, srDone, wrV, envV, appV, hbV>>

RdRead(c) ==
  /\ rpc[c] = "read"
  /\ IF inbox[c] # <<>> THEN
        /\ inbox' = [inbox EXCEPT ![c] = Tail(@)]
        /\ LET r == Head(inbox[c])
               idx == nin[c] - Len(inbox[c]) + 1
           IN IF r = "fatal"
              THEN rpc' = [rpc EXCEPT ![c] = "exit"] /\ rerr' = [rerr EXCEPT ![c] = "fatal"] /\ UNCHANGED <<rcur, srLeft, srDone>>
              ELSE /\ rcur' = [rcur EXCEPT ![c] = <<r, idx>>] /\ UNCHANGED rerr
                   /\ IF r = "ap" /\ SrN > 0 /\ ~srDone[c]
                      THEN rpc' = [rpc EXCEPT ![c] = "sr"] /\ srLeft' = [srLeft EXCEPT ![c] = SrN]
                           /\ srDone' = [srDone EXCEPT ![c] = TRUE]
                      ELSE rpc' = [rpc EXCEPT ![c] = "push"] /\ UNCHANGED <<srLeft, srDone>>
     ELSE /\ TDead(c) /\ rpc' = [rpc EXCEPT ![c] = "exit"] /\ rerr' = [rerr EXCEPT ![c] = "closed"]
          /\ UNCHANGED <<inbox, rcur, srLeft, srDone>>
  /\ obs' = NoObs
  /\ UNCHANGED <<nodeV, provV, cpc, ctx, rwcClosed, wterm, cdone, q, openDeliv, wrV, nin, tmode, budget, appV, hbV, mon>>

\* onEventFrame: SrN times WriteMessageTo(evt.Channel, ...)  ( chWriteTo <- req | <-terminate ), then the event
RdSrSend(c) ==
  /\ rpc[c] = "sr" /\ srLeft[c] > 0
  /\ \/ /\ loop = "sel"
        /\ LET req == [kind |-> "to", ch |-> c, item |-> <<"sr", srLeft[c], "to", c>>] IN
           \E skip \in Skippable(req) : q' = DQ(req, skip) /\ mon' = [mon EXCEPT !.srCount[c] = @ + 1]
     \/ /\ term /\ UNCHANGED <<q, mon>>
  /\ srLeft' = [srLeft EXCEPT ![c] = @ - 1] /\ obs' = NoObs
  /\ UNCHANGED <<nodeV, provV, cpc, ctx, rwcClosed, wterm, cdone, rerr, openDeliv, rpc, rcur, srDone, wrV, envV, appV, hbV>>

RdSrEvent(c) ==
  /\ rpc[c] = "sr" /\ srLeft[c] = 0
  /\ \/ /\ CanDeliver /\ mon' = MonEvent(mon, "streamreq", c, 0) /\ obs' = [e |-> "ev", type |-> "streamreq", ch |-> c]
     \/ /\ term /\ UNCHANGED mon /\ obs' = NoObs
  /\ rpc' = [rpc EXCEPT ![c] = "push"]
  /\ UNCHANGED <<nodeV, provV, chanV, rcur, srLeft, srDone, wrV, envV, appV, hbV>>

RdPush(c) ==
  /\ rpc[c] = "push"
  /\ \/ /\ CanDeliver
        /\ mon' = MonEvent(mon, IF rcur[c][1] = "bad" THEN "perr" ELSE "frame", c, rcur[c][2])
        /\ obs' = [e |-> "ev", type |-> IF rcur[c][1] = "bad" THEN "perr" ELSE "frame", ch |-> c, idx |-> rcur[c][2]]
        /\ rpc' = [rpc EXCEPT ![c] = "read"] /\ UNCHANGED rerr
     \/ /\ term /\ UNCHANGED mon /\ obs' = NoObs
        /\ IF Repaired THEN rpc' = [rpc EXCEPT ![c] = "exit"] /\ rerr' = [rerr EXCEPT ![c] = "terminated"]
           ELSE rpc' = [rpc EXCEPT ![c] = "read"] /\ UNCHANGED rerr
  /\ UNCHANGED <<nodeV, provV, cpc, ctx, rwcClosed, wterm, cdone, q, openDeliv, rcur, srLeft, srDone, wrV, envV, appV, hbV>>

\* ---------------------------------------------------------------------------
\* Writer goroutine (runWriter)
WrTake(c) ==
  /\ wpc[c] = "sel" /\ q[c] # <<>>
  /\ wcur' = [wcur EXCEPT ![c] = Head(q[c])] /\ q' = [q EXCEPT ![c] = Tail(@)]
  /\ wpc' = [wpc EXCEPT ![c] = "write"] /\ obs' = NoObs
  /\ UNCHANGED <<nodeV, provV, cpc, ctx, rwcClosed, wterm, cdone, rerr, openDeliv, rdV, wdead, envV, appV, hbV, mon>>

WrTerm(c) ==
  /\ wpc[c] = "sel" /\ wterm[c] /\ wpc' = [wpc EXCEPT ![c] = "exit"] /\ obs' = NoObs
  /\ UNCHANGED <<nodeV, provV, chanV, rdV, wcur, wdead, envV, appV, hbV, mon>>

\* transport write: returns (ok), fails (mode fail / transport closed), or stays blocked (mode block)
WrWrite(c) ==
  /\ wpc[c] = "write"
  /\ \/ /\ ~TDead(c) /\ tmode[c] = "ok"
        /\ mon' = MonWire(mon, c, wcur[c]) /\ obs' = [e |-> "wire", ch |-> c, item |-> wcur[c]]
        /\ wpc' = [wpc EXCEPT ![c] = "sel"] /\ UNCHANGED wdead
     \/ /\ (TDead(c) \/ tmode[c] = "fail")
        /\ obs' = NoObs
        /\ IF Repaired
           THEN \* the failed item is dropped, the routine keeps serving the queue
                /\ wpc' = [wpc EXCEPT ![c] = "sel"] /\ UNCHANGED wdead
                /\ mon' = [mon EXCEPT !.must[c] = @ \ {<<wcur[c][1], wcur[c][2]>>}]
           ELSE \* the routine exits and blocks on writerDone: everything queued later is lost
                /\ wpc' = [wpc EXCEPT ![c] = "exit"] /\ wdead' = [wdead EXCEPT ![c] = TRUE] /\ UNCHANGED mon
  /\ UNCHANGED <<nodeV, provV, chanV, rdV, wcur, envV, appV, hbV>>

\* ---------------------------------------------------------------------------
\* Heartbeat goroutine
HbTick ==
  /\ hpc = "sel" /\ hticks > 0 /\ hticks' = hticks - 1 /\ hpc' = "send" /\ obs' = NoObs
  /\ UNCHANGED <<nodeV, provV, chanV, rdV, wrV, envV, appV, hterm, mon>>

HbTerm ==
  /\ hpc = "sel" /\ hterm /\ hpc' = "end" /\ obs' = NoObs
  /\ UNCHANGED <<nodeV, provV, chanV, rdV, wrV, envV, appV, hterm, hticks, mon>>

LoopRecvHb ==                   \* WriteMessageAll: chWriteAll rendezvous
  /\ loop = "sel" /\ hpc = "send"
  /\ Dispatch([kind |-> "all", ch |-> CHOOSE c \in Chan : TRUE, item |-> <<"hb", hticks, "all", CHOOSE c \in Chan : TRUE>>])
  /\ hpc' = "sel" /\ obs' = NoObs
  /\ UNCHANGED <<nodeV, provV, cpc, ctx, rwcClosed, wterm, cdone, rerr, openDeliv, rdV, wrV, envV, appV, hterm, hticks>>

HbSendTerm ==
  /\ hpc = "send" /\ term /\ hpc' = "sel" /\ obs' = NoObs
  /\ UNCHANGED <<nodeV, provV, chanV, rdV, wrV, envV, appV, hterm, hticks, mon>>

\* ---------------------------------------------------------------------------
Internal ==
  \/ \E w \in Writers : LoopRecvWrite(w) \/ AppWriteTerm(w)
  \/ CloseRet
  \/ \E e \in Eps : ProvProvide(e) \/ ProvBackoff(e) \/ ProvConnect(e) \/ ProvAccept(e) \/ ProvInit(e)
                    \/ LoopRecvNew(e) \/ ProvNewTerm(e) \/ ProvWait(e) \/ ProvWaitT(e) \/ ProvExit(e)
  \/ \E c \in Chan : LoopRecvCloseCh(c) \/ RunRecvReader(c) \/ RunCtx(c) \/ RunStep(c) \/ RunRecvWriter(c)
                     \/ RunRecvReader2(c) \/ RunPushClose(c) \/ RunCloseChTerm(c) \/ RunEnd(c)
                     \/ RdPushOpen(c) \/ RdRead(c) \/ RdSrSend(c) \/ RdSrEvent(c) \/ RdPush(c)
                     \/ WrTake(c) \/ WrTerm(c) \/ WrWrite(c)
  \/ LoopTerm \/ LoopEpiHb \/ LoopEpiProv \/ LoopEpiChan \/ LoopEpiWait \/ LoopEpiEvt \/ LoopEpiDone
  \/ HbTick \/ HbTerm \/ LoopRecvHb \/ HbSendTerm

Env ==
  \/ \E w \in Writers : AppCall(w)
  \/ CloseCall
  \/ ConsumerToggle
  \/ \E c \in Chan : Arrive(c) \/ SetTMode(c)

Next == Internal \/ Env
Spec == Init /\ [][Next]_vars /\ WF_vars(Internal)

\* ---------------------------------------------------------------------------
\* Properties

\* C12: a select whose send case targets a closed Go channel panics when chosen
NoSendOnClosedEvents ==
  evClosed => \A c \in Chan : rpc[c] \notin {"open", "push"} /\ cpc[c] # "pushc" /\ ~(rpc[c] = "sr" /\ srLeft[c] = 0)

\* C10 / C11 / C14: no monitor clause is violated
MonitorsGreen == mon.bad = {}

\* C14: one channel at a time on client / custom endpoints (structural form)
Live(c) == cpc[c] \notin {"none", "end", "orphan"}
OneAtATimeInv == \A e \in Eps : OneAtATime(e) => Cardinality({c \in Chan : Ep(c) = e /\ Live(c)}) <= 1

\* C16: never more than SrN stream requests per channel instance (one sender per instance in this model)
StreamRequestsBounded == \A c \in Chan : mon.srCount[c] <= SrN

\* C11 / C13: at quiescence (no Close) everything owed to a wire is on it
Quiescent ==
  /\ ~term
  /\ \A w \in Writers : apc[w] = "idle" /\ aidx[w] = NWrites
  /\ \A c \in Chan : q[c] = <<>> /\ wpc[c] \in {"none", "sel", "end"} /\ inbox[c] = <<>>
  /\ \A c \in Chan : tmode[c] # "block"
Healthy(c) == cpc[c] = "sel" /\ ~ctx[c] /\ rpc[c] \notin {"exit", "end"}
NothingOwedAtQuiescence == Quiescent => \A c \in Chan : Healthy(c) => mon.must[c] = {}

\* C12: termination
AllDone ==
  /\ loop = "end" /\ evClosed /\ wg = 0
  /\ \A e \in Eps : ppc[e] = "end"
  /\ \A c \in Chan : cpc[c] \in {"none", "end", "orphan"} /\ rpc[c] \in {"none", "end"} /\ wpc[c] \in {"none", "end"}
  /\ hpc \in {"off", "end"}
CloseTerminates == (closer = "wait") ~> (closer = "ret" /\ AllDone)
WritesReturn == \A w \in Writers : (apc[w] = "send") ~> (apc[w] = "idle")

\* C13 (b): the writer routine of a live channel is never dead (pinned design violates it)
WriterAlive == \A c \in Chan : ~wdead[c]

\* fingerprint view: everything but the last-observable-event register
View == <<nodeV, provV, chanV, rdV, wrV, envV, appV, hbV, mon>>
=============================================================================
