CONSTANT IncrementAt = "before_validation"
INIT IndInit
NEXT Next
INVARIANT IndInv
