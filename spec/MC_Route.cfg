CONSTANT Variant = "fixed"
INIT Init
NEXT Next
CHECK_DEADLOCK FALSE
INVARIANT ForwardedValid
INVARIANT SameMessage
INVARIANT SecondHopAccepts
