------------------------------- MODULE PReader -------------------------------
(* Layer P - contract monitor of a frame reader over a byte stream            *)
(* (C05 totality/progress/resynchronisation, C02 checksum gate, C06 signature *)
(* gate, C07 replay window).                                                  *)
(*                                                                            *)
(* One STREAM record = one run of the real reader over a finite stream:       *)
(*   in      the bytes offered by the transport                               *)
(*   errat   the transport fails after delivering errat bytes (-1: clean EOF  *)
(*           after all of `in`); errkind "eof" | "sentinel"                   *)
(*   dl      index list (into Defs) of the dialect, <<>> = no dialect         *)
(*   key     32 bytes or <<>>                                                 *)
(*   complete  the harness asks for the completeness clause (a deliverable     *)
(*           frame at the cursor must be delivered); off for tampered signed  *)
(*           streams so that the monitor need not hash what was refused       *)
(*   results per Read call: [k, f, dec, cur, terr]  k \in frame|perr|terr|panic *)
(*           cur = bytes consumed so far (drawn from transport - buffered)    *)
(* The monitor walks the results with a cursor `pos` and the window state     *)
(* `newest`; it says which results are allowed, it does not prescribe how far *)
(* the reader skips after a bad frame.                                        *)
EXTENDS Integers, Sequences, SequencesExt, FiniteSets, MavFrame, MavMessage

CONSTANT Defs          \* reflected message definitions (raw)

Failed_(clauses) == {clauses[i][1] : i \in {j \in 1..Len(clauses) : ~clauses[j][2]}}

Window == <<64, 66, 15>>       \* 1 000 000 ticks of 10 us = 10 s, little-endian

None == <<>>                   \* no timestamp accepted yet

\* dialect lookup: index into Defs of the message with this id, 0 if absent
Lookup(dl, id) ==
  LET hits == {k \in 1..Len(dl) : Defs[dl[k]].id = id}
  IN IF hits = {} THEN 0 ELSE dl[CHOOSE k \in hits : TRUE]

TooOld(ts, newest) == newest # None /\ Lt(Add(ts, Window), newest)
MaxTs(ts, newest) == IF newest = None \/ Lt(newest, ts) THEN ts ELSE newest

\* gates a parsed frame has to pass to be delivered (cfg = [dl, key], newest = window state)
SigOK(cfg, f)  == Len(cfg.key) = 0 \/ (IsSigned(f) /\ f.sig = Sign(cfg.key, f))
WinOK(cfg, f, newest) == Len(cfg.key) = 0 \/ ~TooOld(f.ts, newest)
CrcOK(cfg, f) ==
  LET d == Lookup(cfg.dl, f.id)
  IN d = 0 \/ f.ck = Checksum(f, CrcExtra(FromGo(Defs[d])))
DecOK(cfg, f) ==
  LET d == Lookup(cfg.dl, f.id)
  IN d = 0 \/ Decode(FromGo(Defs[d]), f.payload, f.v = 2).ok

Deliverable(cfg, f, newest) == SigOK(cfg, f) /\ WinOK(cfg, f, newest) /\ CrcOK(cfg, f) /\ DecOK(cfg, f)

\* does the delivered result equal the parsed frame
SameFrame(cfg, res, f) ==
  LET d == Lookup(cfg.dl, f.id)
  IN IF d = 0 THEN FrameEq(res.f, f) /\ FrameEq(f, res.f)
     ELSE /\ HeaderEq(res.f, f)
          /\ IsSigned(f) => (res.f.link = f.link /\ res.f.ts = f.ts /\ res.f.sig = f.sig)
          /\ "dec" \in DOMAIN res
          /\ res.dec.id = f.id
          /\ res.dec.vals = Decode(FromGo(Defs[d]), f.payload, f.v = 2).vals

\* the effective stream: what the transport delivers before it fails
Stream(r) == IF r.errat >= 0 /\ r.errat < Len(r["in"]) THEN SubSeq(r["in"], 1, r.errat) ELSE r["in"]

\* walk state: pos, newest, bad (set of violated clause names), ended (a transport error was returned)
Step(r, S, cfg, st, i) ==
  LET res == r.results[i]
      p == ParseAt(S, st.pos)
      isF == p.k = "frame"
      sigok == isF /\ SigOK(cfg, p.f)
      deliv == isF /\ Deliverable(cfg, p.f, st.newest)
      \* the signature is good and in window but another gate fails: the window state is
      \* ambiguous afterwards (the statement does not say whether such a frame counts as accepted)
      ambig == isF /\ Len(cfg.key) > 0 /\ Len(cfg.dl) > 0 /\ sigok /\ WinOK(cfg, p.f, st.newest) /\ ~deliv
      c == << <<"no_panic", res.k # "panic">>,
              <<"result_kind", res.k \in {"frame", "perr", "terr"}>>,
              <<"nothing_after_transport_error", ~st.ended>>,
              <<"progress", res.k \in {"frame", "perr"} => res.cur > st.pos>>,
              <<"cursor_in_range", res.cur <= Len(S) /\ res.cur >= st.pos>>,
              <<"frame_matches_consumed_bytes",
                  res.k = "frame" => (isF /\ st.pos + p.n = res.cur /\ SameFrame(cfg, res, p.f))>>,
              <<"signature_gate", (res.k = "frame" /\ isF) => SigOK(cfg, p.f)>>,
              <<"window_gate", (res.k = "frame" /\ isF /\ ~st.ambig) => WinOK(cfg, p.f, st.newest)>>,
              <<"checksum_gate", (res.k = "frame" /\ isF) => CrcOK(cfg, p.f)>>,
              <<"valid_frame_delivered", (r.complete /\ deliv /\ ~st.ambig) => (res.k = "frame" /\ res.cur = st.pos + p.n)>>,
              <<"transport_error_only_when_drained", res.k = "terr" => res.cur = Len(S)>>,
              <<"transport_error_is_the_injected_one", res.k = "terr" => res.terr = r.errkind>> >>
      delivered == res.k = "frame" /\ isF
  IN [pos |-> IF res.cur > st.pos THEN res.cur ELSE st.pos,
      newest |-> IF delivered /\ Len(cfg.key) > 0 /\ IsSigned(p.f) THEN MaxTs(p.f.ts, st.newest) ELSE st.newest,
      ambig |-> st.ambig \/ ambig,
      ended |-> st.ended \/ res.k = "terr",
      starts |-> IF delivered THEN Append(st.starts, st.pos) ELSE st.starts,
      bad |-> st.bad \cup Failed_(c)]

\* frames of a "clean" stream (valid frames separated by non-marker bytes): their start offsets
CleanStarts(S, cfg) ==
  LET step(acc, i) ==
        IF acc.stop \/ i # acc.pos + 1 THEN acc
        ELSE IF S[i] \in {MagicV1, MagicV2}
             THEN LET p == ParseAt(S, acc.pos)
                  IN IF p.k = "frame" THEN [acc EXCEPT !.pos = acc.pos + p.n, !.starts = Append(acc.starts, acc.pos)]
                     ELSE [acc EXCEPT !.stop = TRUE]
             ELSE [acc EXCEPT !.pos = acc.pos + 1]
  IN FoldLeft(step, [pos |-> 0, starts |-> <<>>, stop |-> FALSE], [i \in 1..Len(S) |-> i]).starts

Check_STREAM(r) ==
  LET S == Stream(r)
      cfg == [dl |-> r.dl, key |-> r.key]
      st0 == [pos |-> 0, newest |-> None, ambig |-> FALSE, ended |-> FALSE, starts |-> <<>>, bad |-> {}]
      fin == FoldLeft(LAMBDA st, i : Step(r, S, cfg, st, i), st0, [i \in 1..Len(r.results) |-> i])
      c == << <<"H_key", Len(r.key) \in {0, 32}>>,
              <<"terminates_with_transport_error", fin.ended>>,
              <<"at_most_n_plus_1_calls", Len(r.results) <= Len(S) + 1>>,
              <<"clean_stream_yields_every_frame",
                  (r.clean /\ Len(r.key) = 0 /\ Len(r.dl) = 0) => fin.starts = CleanStarts(S, cfg)>> >>
  IN fin.bad \cup Failed_(c)

-----------------------------------------------------------------------------
\* C07 - replay window over histories of an alphabet of correctly signed frames.
\* WINSET: the alphabet (frames computed and signed by the spec, re-verified here once).
Check_WINSET(r) ==
  Failed_(<< <<"H_alphabet_signed",
                \A i \in 1..Len(r.frames) :
                   LET p == Parse(r.frames[i]) IN p.k = "frame" /\ p.n = Len(r.frames[i]) /\ IsSigned(p.f)
                                                  /\ p.f.sig = Sign(r.key, p.f)>> >>)
AlphabetTs(r) == [i \in 1..Len(r.frames) |-> Parse(r.frames[i]).f.ts]

\* WINHIST: hist = indices into the alphabet, fed in this order to a fresh reader; acc[i] = delivered?
Check_WINHIST(r, tss) ==
  LET fin == FoldLeft(LAMBDA st, i :
                 LET ts == tss[r.hist[i]]
                     refuse == TooOld(ts, st.newest)
                 IN [newest |-> IF refuse THEN st.newest ELSE MaxTs(ts, st.newest),
                     bad |-> st.bad \cup (IF r.acc[i] = ~refuse THEN {}
                                           ELSE IF refuse THEN {"older_than_window_delivered"} ELSE {"in_window_refused"})],
               [newest |-> None, bad |-> {}], [i \in 1..Len(r.hist) |-> i])
  IN fin.bad \cup Failed_(<< <<"one_result_per_frame", Len(r.acc) = Len(r.hist)>>, <<"no_panic", ~r.panic>> >>)

\* CONC: several readers sharing one dialect, each fed `passes` times a rotation of the stream `in` of valid frames
\* (frames made by the specification); delivered / perr: per reader
Check_CONC(r) ==
  LET k == Len(CleanStarts(r["in"], [dl |-> r.dl, key |-> <<>>]))
  IN Failed_(<< <<"no_panic", ~r.panic>>,
                <<"H_stream_of_frames", k > 0>>,
                <<"every_valid_frame_delivered_under_concurrency",
                    \A i \in 1..Len(r.delivered) : r.delivered[i] = r.passes * k /\ r.perr[i] = 0>> >>)

\* projection of a result sequence that must not depend on the chunking
Proj(results) == [i \in 1..Len(results) |->
                    [k |-> results[i].k, cur |-> results[i].cur,
                     f |-> IF results[i].k = "frame" THEN results[i].f ELSE <<>>,
                     dec |-> IF "dec" \in DOMAIN results[i] THEN results[i].dec ELSE <<>>]]
=============================================================================
