CONSTANTS M = 4
          MaxOps = 10
          IncrementAt = "after_write"
INIT Init
NEXT Next
CHECK_DEADLOCK FALSE
INVARIANT Gapless
INVARIANT CounterIsCount
