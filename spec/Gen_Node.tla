------------------------------ MODULE Gen_Node ------------------------------
(* Spec -> code: behaviours of the INode model as replayable scenarios.      *)
(* A history variable collects the environment actions of the behaviour     *)
(* (arrivals, faults, application writes, consumer stop/resume, transport    *)
(* mode switches) and, at the Close call, where every goroutine of the       *)
(* model is parked at that moment; TLC -simulate prints one scenario per     *)
(* finished behaviour.  The replay holds the real goroutines at those points *)
(* with the gate hooks, so the narrow windows TLC found reachable are forced *)
(* on the real node instead of hoped for.                                    *)
EXTENDS INode, Json

GK1 == ("e1" :> "custom")
GK2 == ("e1" :> "custom") @@ ("e2" :> "custom")

VARIABLE hist

GInit == Init /\ hist = <<>>
GNext == Next /\ hist' = IF obs'.e \in {"arrive", "write", "consumer", "tmode", "close"} THEN Append(hist, obs') ELSE hist

Finished == IF AllowClose THEN closer = "ret" ELSE Quiescent /\ \A c \in Chan : nin[c] = MaxIn \/ cpc[c] = "none"
Interesting == \E i \in 1..Len(hist) : hist[i].e = "close" => hist[i].parked # {}
Emit == (Finished /\ Len(hist) > 0) => PrintT("SCEN " \o ToJson(hist))
=============================================================================
