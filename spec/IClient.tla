------------------------------- MODULE IClient -------------------------------
(* Layer I - timed, implementation-shaped model of a client-type endpoint:    *)
(* endpoint_client.go (provide / connect with its per-dial timeout and the    *)
(* reconnect period), channel_provider.go (one channel at a time: wait for    *)
(* ch.done before providing again) and pkg/timednetconn (a read deadline      *)
(* armed afresh for every Read) with discrete time.                           *)
(*                                                                            *)
(* The environment is the peer: it accepts, refuses or never answers          *)
(* connection attempts, sends bytes, drops the connection; the application    *)
(* may close the node at any time and may write to the open connection       *)
(* (NodeWrite: heartbeats, application messages), which in the code as it is  *)
(* has no effect on the read deadline.                                        *)
(*                                                                            *)
(* Design = "repaired"       the code as it is                                *)
(* Design = "eager_retry"    a failed connect is retried at once (no delay)   *)
(* Design = "deadline_once"  the read deadline is armed when the connection   *)
(*                           is made, not per Read: an active connection is   *)
(*                           closed all the same                              *)
(* Design = "no_dial_timeout" a dial that is never answered hangs for ever    *)
(* Design = "write_extends_deadline"  a successful Write pushes the pending   *)
(*                           Read's deadline forward ("the peer took our      *)
(*                           data, the link is alive"): a silent peer is      *)
(*                           never expired while the node keeps writing       *)
(* The last four are kept to show that TLC refutes them (IClient_*.cfg).      *)
EXTENDS Integers, Sequences, FiniteSets, ReconnRule

CONSTANTS P,        \* reconnect period (ticks)
          D,        \* dial timeout (ticks)
          I,        \* idle timeout (ticks)
          Horizon,  \* last tick
          Modes,    \* peer behaviours: subset of {"accept", "refuse", "hang"}
          Budget,   \* peer actions (mode changes, sends, drops)
          Design

VARIABLES now,
          pc,        \* "first" | "backoff" | "dialing" | "connected" | "done"
          timer,     \* tick at which the backoff / the dial ends
          smode,     \* what the peer does with connection attempts
          deadline,  \* tick at which the pending Read gives up
          budget,
          attempts,  \* history: [t, mode] every connect()
          fails,     \* history: ticks at which a connect() failed
          opens,     \* history: ticks at which a channel was provided
          closes,    \* history: [t, cause] cause \in {"idle", "fault", "closing"}
          rx         \* history: ticks at which the open connection received something (reset on every open)

vars == <<now, pc, timer, smode, deadline, budget, attempts, fails, opens, closes, rx>>

Init ==
  /\ now = 0 /\ pc = "first" /\ timer = 0 /\ smode \in Modes /\ deadline = 0 /\ budget = Budget
  /\ attempts = <<>> /\ fails = <<>> /\ opens = <<>> /\ closes = <<>> /\ rx = <<>>

Last(s) == s[Len(s)]

\* --------------------------------------------------------------- the endpoint
\* connect(): the first provide() calls it at once, later ones when the backoff is over
Connect ==
  /\ pc = "first" \/ (pc = "backoff" /\ now >= timer)
  /\ attempts' = Append(attempts, [t |-> now, mode |-> smode])
  /\ CASE smode = "accept" -> /\ pc' = "connected" /\ opens' = Append(opens, now) /\ deadline' = now + I /\ rx' = <<>>
                              /\ UNCHANGED <<timer, fails>>
       [] smode = "refuse" -> /\ fails' = Append(fails, now)
                              /\ pc' = "backoff" /\ timer' = (IF Design = "eager_retry" THEN now ELSE now + P)
                              /\ UNCHANGED <<opens, deadline, rx>>
       [] smode = "hang"   -> /\ pc' = "dialing" /\ timer' = now + D
                              /\ UNCHANGED <<opens, deadline, rx, fails>>
  /\ UNCHANGED <<now, smode, budget, closes>>

\* the per-dial context expires: the attempt has failed
DialTimeout ==
  /\ pc = "dialing" /\ now >= timer /\ Design # "no_dial_timeout"
  /\ fails' = Append(fails, now)
  /\ pc' = "backoff" /\ timer' = (IF Design = "eager_retry" THEN now ELSE now + P)
  /\ UNCHANGED <<now, smode, deadline, budget, attempts, opens, closes, rx>>

\* the pending Read reaches its deadline: the channel closes with the timeout as its cause, the provider starts over
IdleExpire ==
  /\ pc = "connected" /\ now >= deadline
  /\ closes' = Append(closes, [t |-> now, cause |-> "idle"])
  /\ pc' = "backoff" /\ timer' = now + P
  /\ UNCHANGED <<now, smode, deadline, budget, attempts, fails, opens, rx>>

\* --------------------------------------------------------------- the peer
Send ==
  /\ pc = "connected" /\ budget > 0 /\ now < deadline
  /\ (IF rx = <<>> THEN TRUE ELSE Last(rx) < now)           \* at most one per tick keeps the model finite
  /\ rx' = Append(rx, now)
  /\ deadline' = (IF Design = "deadline_once" THEN deadline ELSE now + I)   \* the next Read arms a fresh deadline
  /\ budget' = budget - 1
  /\ UNCHANGED <<now, pc, timer, smode, attempts, fails, opens, closes>>

Drop ==
  /\ pc = "connected" /\ budget > 0
  /\ closes' = Append(closes, [t |-> now, cause |-> "fault"])
  /\ pc' = "backoff" /\ timer' = now + P
  /\ budget' = budget - 1
  /\ UNCHANGED <<now, smode, deadline, attempts, fails, opens, rx>>

SetMode(m) ==
  /\ budget > 0 /\ m # smode /\ pc # "dialing"
  /\ smode' = m /\ budget' = budget - 1
  /\ UNCHANGED <<now, pc, timer, deadline, attempts, fails, opens, closes, rx>>

\* --------------------------------------------------------------- the application
\* the node writes to the open connection (timednetconn.Write arms a WRITE deadline only)
NodeWrite ==
  /\ pc = "connected" /\ budget > 0 /\ now < deadline
  /\ deadline' = (IF Design = "write_extends_deadline" THEN now + I ELSE deadline)
  /\ budget' = budget - 1
  /\ UNCHANGED <<now, pc, timer, smode, attempts, fails, opens, closes, rx>>

Close ==
  /\ pc # "done"
  /\ closes' = (IF pc = "connected" THEN Append(closes, [t |-> now, cause |-> "closing"]) ELSE closes)
  /\ pc' = "done"
  /\ UNCHANGED <<now, timer, smode, deadline, budget, attempts, fails, opens, rx>>

\* --------------------------------------------------------------- time
\* time passes only when nothing is due: timers that have expired fire first
Urgent ==
  \/ pc = "first"
  \/ pc = "backoff" /\ now >= timer
  \/ pc = "dialing" /\ now >= timer /\ Design # "no_dial_timeout"
  \/ pc = "connected" /\ now >= deadline

Tick ==
  /\ now < Horizon /\ ~Urgent
  /\ now' = now + 1
  /\ UNCHANGED <<pc, timer, smode, deadline, budget, attempts, fails, opens, closes, rx>>

Next == Connect \/ DialTimeout \/ IdleExpire \/ Send \/ Drop \/ NodeWrite \/ Close \/ Tick \/ \E m \in Modes : SetMode(m)

Spec == Init /\ [][Next]_vars

\* --------------------------------------------------------------- properties (C14)
\* never two channels at once: every open but the last has its close, in order
OneChannelAtATime ==
  /\ Len(opens) - Len(closes) \in {0, 1}
  /\ \A i \in 1..Len(closes) : opens[i] <= closes[i].t /\ (i < Len(opens) => closes[i].t <= opens[i + 1])

\* the first attempt is immediate
FirstAttemptImmediate == attempts # <<>> => attempts[1].t = 0

\* every attempt but the first comes exactly P after the failure that made it necessary
FailureTimes == {fails[i] : i \in 1..Len(fails)} \cup {closes[i].t : i \in {j \in 1..Len(closes) : closes[j].cause # "closing"}}
ReconnectAfterTheDelay ==
  \A i \in 2..Len(attempts) :
     LET before == {f \in FailureTimes : f < attempts[i].t}     \* P >= 1: the failure lies strictly before
     IN before # {} /\ GapOk(attempts[i].t - (CHOOSE f \in before : \A g \in before : g <= f), P, 0, 0)

\* every failure that Close leaves enough time is followed by a new attempt
ReconnectsAfterEveryFailure ==
  \A f \in FailureTimes : (pc = "done" \/ now < f + P \/ (now = f + P /\ Urgent)) \/ \E i \in 1..Len(attempts) : attempts[i].t = f + P

\* a dial never lasts longer than the dial timeout
DialBounded == pc = "dialing" => now <= timer /\ timer - Last(attempts).t = D

\* idle expiry: a close caused by the timeout comes exactly I after the last thing received (or the open) ...
IdleRule ==
  \A i \in 1..Len(closes) : closes[i].cause = "idle" =>
     LET rxBefore == {opens[i]} \cup (IF i = Len(closes) /\ i = Len(opens) /\ pc # "connected" THEN {rx[k] : k \in 1..Len(rx)} ELSE {})
     IN i < Len(opens) \/ IdleCloseOk(closes[i].t, CHOOSE r \in rxBefore : \A q \in rxBefore : q <= r, I, 0, 0)
\* ... and no connection stays open for longer than I after the last thing it received, whatever the node itself sends
\* (with IdleRule: a connection that keeps receiving, gaps below I, is not closed by the timeout)
ActiveNotClosed == pc = "connected" => now <= (IF rx = <<>> THEN Last(opens) ELSE Last(rx)) + I
=============================================================================
