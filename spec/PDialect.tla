------------------------------ MODULE PDialect ------------------------------
(* Layer P - shipped dialects are well-formed and mutually consistent (C17).  *)
EXTENDS Integers, Sequences, SequencesExt, FiniteSets, MavMessage, XmlDef

CONSTANT Defs

Failed_(clauses) == {clauses[i][1] : i \in {j \in 1..Len(clauses) : ~clauses[j][2]}}

\* DIALECT [name, init_ok, decl (def indices in declaration order), hits <<id, def index, returned id, codec CRC_EXTRA>>, nlookups]
Check_DIALECT(r) ==
  LET declared == {<<Defs[r.decl[k]].id, r.decl[k]>> : k \in 1..Len(r.decl)}
      got == {<<r.hits[k][1], r.hits[k][2]>> : k \in 1..Len(r.hits)}
  IN Failed_(<< <<"H_full_id_range_looked_up", r.nlookups = 16777216 \/ ("sweep" \in DOMAIN r /\ r.sweep = "declared")>>,
                <<"initializes", r.init_ok>>,
                <<"ids_unique", Cardinality({Defs[r.decl[k]].id : k \in 1..Len(r.decl)}) = Len(r.decl)>>,
                <<"lookup_returns_exactly_the_declared_messages", got = declared>>,
                <<"lookup_returns_codec_of_that_id", \A k \in 1..Len(r.hits) : r.hits[k][3] = r.hits[k][1]>>,
                <<"lookup_codec_has_the_crc_extra_of_its_definition",
                    \A k \in 1..Len(r.hits) : r.hits[k][2] = 0 \/ r.hits[k][4] = CrcExtra(FromGo(Defs[r.hits[k][2]]))>>,
                <<"every_message_fits_255", \A k \in 1..Len(r.decl) : SizeExt(FromGo(Defs[r.decl[k]])) <= 255>> >>)

\* XTYPE [name, id, types]: the distinct Go types behind one (message name, id) across all dialects
Check_XTYPE(r) == Failed_(<< <<"same_go_type_in_every_dialect", Len(r.types) = 1>> >>)

\* XENUM [const, occ <<[dialect, enum, value]>>]
Check_XENUM(r) ==
  Failed_(<< <<"same_value_in_every_dialect", \A i, j \in 1..Len(r.occ) : r.occ[i].value = r.occ[j].value>> >>)

\* CRC_EXTRA values published with the reference C library (common.xml / minimal.xml / test.xml), by message id
Golden == [i \in {} |-> 0] @@
  (0 :> 50) @@ (1 :> 124) @@ (2 :> 137) @@ (4 :> 237) @@ (5 :> 217) @@ (6 :> 104) @@ (7 :> 119) @@ (11 :> 89) @@
  (20 :> 214) @@ (21 :> 159) @@ (22 :> 220) @@ (23 :> 168) @@ (24 :> 24) @@ (25 :> 23) @@ (26 :> 170) @@ (27 :> 144) @@
  (28 :> 67) @@ (29 :> 115) @@ (30 :> 39) @@ (31 :> 246) @@ (32 :> 185) @@ (33 :> 104) @@ (34 :> 237) @@ (35 :> 244) @@
  (36 :> 222) @@ (37 :> 212) @@ (38 :> 9) @@ (39 :> 254) @@ (40 :> 230) @@ (41 :> 28) @@ (42 :> 28) @@ (43 :> 132) @@
  (44 :> 221) @@ (45 :> 232) @@ (46 :> 11) @@ (47 :> 153) @@ (48 :> 41) @@ (49 :> 39) @@ (50 :> 78) @@ (51 :> 196) @@
  (54 :> 15) @@ (55 :> 3) @@ (61 :> 167) @@ (62 :> 183) @@ (63 :> 119) @@ (64 :> 191) @@ (65 :> 118) @@ (66 :> 148) @@
  (67 :> 21) @@ (69 :> 243) @@ (70 :> 124) @@ (73 :> 38) @@ (74 :> 20) @@ (75 :> 158) @@ (76 :> 152) @@ (77 :> 143) @@
  (81 :> 106) @@ (82 :> 49) @@ (83 :> 22) @@ (84 :> 143) @@ (85 :> 140) @@ (86 :> 5) @@ (87 :> 150) @@ (89 :> 231) @@
  (90 :> 183) @@ (91 :> 63) @@ (92 :> 54) @@ (93 :> 47) @@ (100 :> 175) @@ (101 :> 102) @@ (102 :> 158) @@ (103 :> 208) @@
  (104 :> 56) @@ (105 :> 93) @@ (106 :> 138) @@ (107 :> 108) @@ (108 :> 32) @@ (109 :> 185) @@ (110 :> 84) @@ (111 :> 34) @@
  (112 :> 174) @@ (113 :> 124) @@ (114 :> 237) @@ (115 :> 4) @@ (116 :> 76) @@ (117 :> 128) @@ (118 :> 56) @@ (119 :> 116) @@
  (120 :> 134) @@ (121 :> 237) @@ (122 :> 203) @@ (123 :> 250) @@ (124 :> 87) @@ (125 :> 203) @@ (126 :> 220) @@ (127 :> 25) @@
  (128 :> 226) @@ (129 :> 46) @@ (130 :> 29) @@ (131 :> 223) @@ (132 :> 85) @@ (133 :> 6) @@ (134 :> 229) @@ (135 :> 203) @@
  (136 :> 1) @@ (137 :> 195) @@ (138 :> 109) @@ (139 :> 168) @@ (140 :> 181) @@ (141 :> 47) @@ (142 :> 72) @@ (143 :> 131) @@
  (146 :> 103) @@ (147 :> 154) @@ (148 :> 178) @@ (149 :> 200) @@ (230 :> 163) @@ (231 :> 105) @@ (232 :> 151) @@ (233 :> 35) @@
  (234 :> 150) @@ (235 :> 179) @@ (241 :> 90) @@ (242 :> 104) @@ (243 :> 85) @@ (244 :> 95) @@ (245 :> 130) @@ (246 :> 184) @@
  (247 :> 81) @@ (248 :> 8) @@ (249 :> 204) @@ (250 :> 49) @@ (251 :> 170) @@ (252 :> 44) @@ (253 :> 83) @@ (254 :> 46) @@
  (17000 :> 103)

\* GOLD [d, crc, std]: the library's CRC_EXTRA of a message of the standard dialects (minimal/standard/common/test)
Check_GOLD(r) ==
  LET id == Defs[r.d].id IN
  IF ~r.std \/ id \notin DOMAIN Golden THEN {}
  ELSE Failed_(<< <<"published_crc_extra", r.crc = Golden[id]>>,
                  <<"spec_crc_extra_equals_published", CrcExtra(FromGo(Defs[r.d])) = Golden[id]>> >>)

\* DINIT [case, defs (raw definitions of the dialect's messages), init_ok, panic]
WellFormedDialect(ds) ==
  /\ \A i \in 1..Len(ds) : DefValid(ds[i])
  /\ Cardinality({ds[i].id : i \in 1..Len(ds)}) = Len(ds)

\* A field whose Go type is a defined type without a mavenum tag (type Callsign string): the property does not say whether
\* such a struct is malformed. The library may refuse it; if it accepts it, "not at first use" still binds: the codec it
\* hands out must encode the field like its underlying type (probes [d, vals, v2, out, panic] recorded at first use).
HasDefinedTypes(ds) == \E i \in 1..Len(ds) : \E j \in 1..Len(ds[i].fields) : ds[i].fields[j].defined
ProbesOf(r) == IF "probes" \in DOMAIN r THEN r.probes ELSE <<>>
Check_DINIT(r) ==
  IF HasDefinedTypes(r.defs)
  THEN Failed_(<< <<"no_panic", ~r.panic>>,
                  <<"accepted_struct_works_at_first_use",
                       r.init_ok => \A i \in 1..Len(ProbesOf(r)) :
                          LET p == ProbesOf(r)[i]
                          IN ~p.panic /\ p.out = Encode(FromGo(r.defs[p.d]), p.vals, p.v2)>> >>)
  ELSE
  Failed_(<< <<"no_panic", ~r.panic>>,
             <<"malformed_dialect_rejected_at_initialization", ~WellFormedDialect(r.defs) => ~r.init_ok>>,
             <<"well_formed_dialect_accepted", WellFormedDialect(r.defs) => r.init_ok>> >>)

-----------------------------------------------------------------------------
\* C18 - GEN [doc, gen_err, deterministic, compiled, init_ok, version, msgs, consts]
\*   msgs <<[def (reflected raw def), crc, size_v1, size_v2, probes <<[vals, v2, out]>>]>> in dialect order
\*   consts <<[name, value]>> every enum constant of the generated package
Check_GEN(r) ==
  LET doc == r.doc
      want == Messages(doc)
      nm == IF Len(r.msgs) < Len(want) THEN Len(r.msgs) ELSE Len(want)
      perMsg(k) ==
        LET got == FromGo(r.msgs[k].def)
            m == want[k]
        IN IF got.fields # m.fields \/ got.id # m.id \/ got.name # m.name
           THEN \* the generated struct does not mean the XML message: layout clauses would compare apples and oranges
                << <<"message_id", got.id = m.id>>,
                   <<"message_name", got.name = m.name>>,
                   <<"fields_mean_the_xml_fields", got.fields = m.fields>> >>
           ELSE << <<"crc_extra", r.msgs[k].crc = CrcExtra(m)>>,
                   <<"size_base", r.msgs[k].size_v1 = SizeBase(m)>>,
                   <<"size_ext", r.msgs[k].size_v2 = SizeExt(m)>>,
                   <<"encodes_like_the_definition",
                        \A i \in 1..Len(r.msgs[k].probes) :
                           r.msgs[k].probes[i].out = Encode(m, r.msgs[k].probes[i].vals, r.msgs[k].probes[i].v2)>> >>
  IN IF ~EnumValuesUnique(doc)
     THEN {"H_document_of_the_grammar_is_valid_mavlink"}
     ELSE IF ~Expressible(doc)
     THEN Failed_(<< <<"inexpressible_definition_reported", r.gen_err>> >>)
     ELSE Failed_(<< <<"generator_accepts_valid_xml", ~r.gen_err>>,
                     <<"generating_twice_gives_identical_files", r.deterministic>>,
                     <<"generated_package_compiles", r.compiled>>,
                     <<"initializes_as_dialect", r.init_ok>>,
                     <<"version_from_xml", r.compiled => r.version = Version(doc)>>,
                     <<"all_messages_in_order", r.compiled => Len(r.msgs) = Len(want)>>,
                     <<"enum_constants_equal_xml_values",
                          r.compiled => {<<r.consts[i].name, r.consts[i].value>> : i \in 1..Len(r.consts)} = Constants(doc)>> >>
                  \o FlattenSeq([k \in 1..(IF r.compiled THEN nm ELSE 0) |-> perMsg(k)]))
=============================================================================
