CONSTANTS
  Eps = {"e1", "e2"}
  Kind <- TK2
  MaxCh = 3
  QCap = 8
  Writers = {"w1", "w2"}
  NWrites = 3
  WKinds = {"all", "to", "except"}
  MaxIn = 4
  InKinds = {"ok", "bad", "fatal", "ap"}
  HbTicks = 1
  SrN = 0
  MaxDialFail = 0
  TModes = {"ok", "block", "fail"}
  EnvBudget = 4
  StartOpen = FALSE
  AllowClose = TRUE
  Design = "repaired"
INIT TInit
NEXT TNext
INVARIANT NotAccepted
VIEW TView
CHECK_DEADLOCK FALSE
