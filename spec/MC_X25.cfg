INIT MCInit
NEXT MCNext
CHECK_DEADLOCK FALSE
INVARIANT TableEqualsSerial
INVARIANT StaysInRange
