------------------------------ MODULE MC_Frame ------------------------------
(* Exhaustive check that the frame format of MavFrame is a lossless,         *)
(* prefix-free code over a boundary alphabet, and emission of spec-computed  *)
(* vectors (spec -> code direction of C01).                                  *)
EXTENDS Integers, Sequences, TLC, Json, IOUtils, MavFrame

CONSTANT MaxPayload

VARIABLE f

HB == <<0, 1, 127, 128, 253, 254, 255>>
Hdr == {<<HB[i], HB[(i % 7) + 1], HB[((i + 2) % 7) + 1]>> : i \in 1..7}
Payloads == UNION {[1..n -> {0, 253, 255}] : n \in 0..MaxPayload}
Cks == {0, 1, 65280, 65535}
IdsV1 == {0, 1, 255}
IdsV2 == {0, 1, 255, 256, 65535, 65536, 16777215}
Tss == {Z6, <<1,0,0,0,0,0>>, <<255,255,255,0,0,0>>, <<0,0,0,1,0,0>>, <<255,255,255,255,255,255>>}
Sigs == {Z6, <<1,2,3,4,5,255>>}

V1Frames(h) == {Mk(1, 0, 0, h[1], h[2], h[3], id, p, ck, 0, Z6, <<>>) :
               id \in IdsV1, p \in Payloads, ck \in Cks}
V2U(h) == {Mk(2, 0, cf, h[1], h[2], h[3], id, p, ck, 0, Z6, <<>>) :
               cf \in {0, 255}, id \in IdsV2, p \in Payloads, ck \in Cks}
V2S(h) == {Mk(2, 1, cf, h[1], h[2], h[3], id, p, ck, lk, ts, sg) :
               cf \in {0, 255}, id \in IdsV2, p \in Payloads, ck \in Cks,
               lk \in {0, 255}, ts \in Tss, sg \in Sigs}

\* Two phases so that TLC's workers share the enumeration: the initial states fix
\* version and header bytes ("seed" frames with an out-of-range sequence marker),
\* the single step picks everything else.
Seeds == {[cls |-> c, h |-> h] : c \in {"v1", "v2u", "v2s"}, h \in Hdr}
Init == f \in Seeds
Next ==
  /\ "cls" \in DOMAIN f
  /\ \/ f.cls = "v1"  /\ f' \in V1Frames(f.h)
     \/ f.cls = "v2u" /\ f' \in V2U(f.h)
     \/ f.cls = "v2s" /\ f' \in V2S(f.h)

IsFrame == "v" \in DOMAIN f

M == Marshal(f)

WellFormedOK == IsFrame => WellFormed(f) /\ Representable(f)
RoundTrip == IsFrame => LET p == Parse(M) IN p.k = "frame" /\ p.n = Len(M) /\ p.f = f /\ FrameEq(p.f, f)
LengthOK == IsFrame => Len(M) = MarshalLen(f)
PrefixFree == IsFrame => \A k \in 0..(Len(M) - 1) : Parse(SubSeq(M, 1, k)).k = "more"
\* a frame followed by anything parses to the same frame (self-delimiting)
SelfDelimiting == IsFrame => LET p == Parse(M \o <<254, 0, 7>>) IN p.k = "frame" /\ p.n = Len(M) /\ p.f = f

VecMod == atoi(IOEnv.VECMOD)
VecOff == atoi(IOEnv.VECOFF)
Hash == f.seq + 3 * f.id + 7 * Len(f.payload) + 11 * f.ck + 13 * f.link + 17 * Len(f.sig) + 19 * f.ts[1] + 23 * f.cflag
        + 29 * (IF Len(f.payload) > 0 THEN f.payload[1] ELSE 5)
Emit == (IsFrame /\ VecMod > 0 /\ Hash % VecMod = VecOff % VecMod) =>
          PrintT("VEC " \o ToJson([f |-> f, bytes |-> M]))
=============================================================================
