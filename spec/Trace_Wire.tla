------------------------------ MODULE Trace_Wire ------------------------------
(* Code -> spec conformance for stateless records: every line of the ndjson   *)
(* trace recorded from the real code is judged by the PWire monitor.  The     *)
(* step is deterministic (one state per line); a rejected line is printed     *)
(* with the violated clauses and the walk continues, so one run reports every *)
(* rejected record, not just the first.                                       *)
EXTENDS Integers, Sequences, TLC, Json, IOUtils, PWire

Trace == ndJsonDeserialize(IOEnv.TRACE)
\* reflected message definitions (only for the message records; "-" = none)
Defs == IF IOEnv.DEFS = "-" THEN <<>> ELSE JsonDeserialize(IOEnv.DEFS)

VARIABLE l

Check(r) ==
  CASE r.e = "FW"  -> Check_FW(r)
    [] r.e = "FR"  -> Check_FR(r)
    [] r.e = "VEC" -> Check_VEC(r)
    [] r.e = "FWM" -> Check_FWM(r, Defs[r.d])
    [] r.e = "REWRITE" -> Check_REWRITE(r)
    [] r.e = "X25ALL" -> Check_X25ALL(r)
    [] r.e = "X25S" -> Check_X25S(r)
    [] r.e = "TIMED" -> Check_TIMED(r)
    [] r.e = "DEF" -> Check_DEF(r, Defs[r.d])
    [] r.e = "ENC" -> Check_ENC(r, Defs[r.d])
    [] r.e = "DEC" -> Check_DEC(r, Defs[r.d])
    [] OTHER -> {"H_unknown_record_kind"}

Init == l = 1

Next ==
  /\ l <= Len(Trace)
  /\ LET bad == Check(Trace[l])
     IN IF bad = {} THEN TRUE ELSE PrintT(<<"REJECT", l, Trace[l].seq, Trace[l].e, bad>>)
  /\ l' = l + 1

Spec == Init /\ [][Next]_l

Done == (l = Len(Trace) + 1) => PrintT(<<"WALKED", Len(Trace)>>)
=============================================================================
