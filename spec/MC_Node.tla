------------------------------- MODULE MC_Node -------------------------------
(* Model-checking instances of INode: one configuration file per property     *)
(* family, each rich in one dimension and poor in the others (see DESIGN.md). *)
EXTENDS INode

CONSTANTS e1, e2, w1, w2

KindCustom1 == (e1 :> "custom")
KindClient1 == (e1 :> "client")
KindServer1 == (e1 :> "server")
KindCustom2 == (e1 :> "custom") @@ (e2 :> "custom")
KindCustomClient == (e1 :> "custom") @@ (e2 :> "client")
KindCustomServer == (e1 :> "custom") @@ (e2 :> "server")
=============================================================================
