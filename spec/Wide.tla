-------------------------------- MODULE Wide --------------------------------
(* Natural numbers wider than TLC's 32-bit integers, as little-endian byte   *)
(* sequences ("limbs").  Used for 48-bit signature timestamps, 64-bit field  *)
(* values and enum values, microsecond Unix times.                           *)
(*                                                                           *)
(* A wide value is a sequence over 0..255, least significant byte first.     *)
(* Operators never need more than 16 bits of intermediate precision.         *)
EXTENDS Integers, Sequences, SequencesExt, FiniteSetsExt

IsBytes(s) == \A i \in 1..Len(s) : s[i] \in 0..255

Zeros(n) == [i \in 1..n |-> 0]
Rep(b, n) == [i \in 1..n |-> b]

\* little-endian bytes of a (TLC-sized) natural, n bytes
LE(x, n) == [i \in 1..n |-> (x \div (256 ^ (i - 1))) % 256]

\* big-endian bytes of a (TLC-sized) natural, n bytes
BE(x, n) == [i \in 1..n |-> (x \div (256 ^ (n - i))) % 256]

\* value of a short little-endian sequence (at most 3 bytes: fits TLC ints)
Val(s) == FoldLeft(LAMBDA acc, i : acc + s[i] * (256 ^ (i - 1)), 0, [i \in 1..Len(s) |-> i])

\* pad / cut to n bytes (little-endian: high bytes are at the end)
Fit(s, n) == [i \in 1..n |-> IF i <= Len(s) THEN s[i] ELSE 0]

\* strip high zero bytes (canonical form), keep at least one byte
Norm(s) ==
  LET nz == {i \in 1..Len(s) : s[i] # 0}
  IN IF nz = {} THEN <<0>> ELSE SubSeq(s, 1, Max(nz))

IsZero(s) == \A i \in 1..Len(s) : s[i] = 0

\* comparison: -1, 0, 1
Cmp(a, b) ==
  LET n == IF Len(a) > Len(b) THEN Len(a) ELSE Len(b)
      x == Fit(a, n)
      y == Fit(b, n)
      d == {i \in 1..n : x[i] # y[i]}
  IN IF d = {} THEN 0
     ELSE LET k == Max(d) IN IF x[k] < y[k] THEN -1 ELSE 1

Lt(a, b) == Cmp(a, b) = -1
Le(a, b) == Cmp(a, b) <= 0
Eq(a, b) == Cmp(a, b) = 0

\* a + b on n bytes, carry out dropped (i.e. modulo 256^n); result has n bytes
AddN(a, b, n) ==
  LET x == Fit(a, n)
      y == Fit(b, n)
      step(acc, i) ==
        LET s == x[i] + y[i] + acc[2]
        IN <<Append(acc[1], s % 256), s \div 256>>
  IN FoldLeft(step, <<<<>>, 0>>, [i \in 1..n |-> i])[1]

\* exact a + b (one byte longer than the longer operand, then normalised)
Add(a, b) ==
  LET n == (IF Len(a) > Len(b) THEN Len(a) ELSE Len(b)) + 1
  IN Norm(AddN(a, b, n))

\* a - b on n bytes modulo 256^n (two's complement wrap, like Go's unsigned -)
SubN(a, b, n) ==
  LET x == Fit(a, n)
      y == Fit(b, n)
      step(acc, i) ==
        LET d == x[i] - y[i] - acc[2]
        IN IF d < 0 THEN <<Append(acc[1], d + 256), 1>>
                    ELSE <<Append(acc[1], d), 0>>
  IN FoldLeft(step, <<<<>>, 0>>, [i \in 1..n |-> i])[1]

\* two's complement negation on n bytes
NegN(a, n) == SubN(Zeros(n), a, n)

\* multiply by a small natural m (< 2^15), exact
MulSmall(a, m) ==
  LET step(acc, i) ==
        LET p == a[i] * m + acc[2]
        IN <<Append(acc[1], p % 256), p \div 256>>
      r == FoldLeft(step, <<<<>>, 0>>, [i \in 1..Len(a) |-> i])
      \* flush carry (at most 2 more bytes since m < 2^15)
      c == r[2]
  IN Norm(r[1] \o <<c % 256, (c \div 256) % 256, c \div 65536>>)

\* divide by a small natural m (< 2^15): <<quotient, remainder>>
DivModSmall(a, m) ==
  LET n == Len(a)
      \* from the most significant byte down
      step(acc, k) ==
        LET i == n + 1 - k
            cur == acc[2] * 256 + a[i]
        IN <<[acc[1] EXCEPT ![i] = cur \div m], cur % m>>
      r == FoldLeft(step, <<Zeros(n), 0>>, [k \in 1..n |-> k])
  IN <<Norm(r[1]), r[2]>>

\* decimal rendering as a sequence of character codes ("0" = 48)
RECURSIVE DecDigits(_)
DecDigits(a) ==
  IF IsZero(a) THEN <<>>
  ELSE LET qr == DivModSmall(a, 10) IN Append(DecDigits(qr[1]), 48 + qr[2])

ToDecimal(a) == IF IsZero(a) THEN <<48>> ELSE DecDigits(Norm(a))

\* parse a decimal numeral given as character codes; result normalised
FromDecimal(cs) ==
  FoldLeft(LAMBDA acc, c : Add(MulSmall(acc, 10), <<c - 48>>), <<0>>, cs)

IsDecimal(cs) == Len(cs) > 0 /\ \A i \in 1..Len(cs) : cs[i] \in 48..57

\* bit k (0-based) of a wide value
Bit(a, k) ==
  LET i == (k \div 8) + 1
  IN IF i > Len(a) THEN 0 ELSE (a[i] \div (2 ^ (k % 8))) % 2

\* bitwise OR / AND of equal-length operands, via per-bit arithmetic on bytes
ByteOr(x, y)  == LET f(k) == IF ((x \div (2^k)) % 2) + ((y \div (2^k)) % 2) > 0 THEN 2^k ELSE 0
                 IN f(0)+f(1)+f(2)+f(3)+f(4)+f(5)+f(6)+f(7)
ByteAnd(x, y) == LET f(k) == IF ((x \div (2^k)) % 2) + ((y \div (2^k)) % 2) = 2 THEN 2^k ELSE 0
                 IN f(0)+f(1)+f(2)+f(3)+f(4)+f(5)+f(6)+f(7)
OrN(a, b, n)  == [i \in 1..n |-> ByteOr(Fit(a, n)[i], Fit(b, n)[i])]
AndN(a, b, n) == [i \in 1..n |-> ByteAnd(Fit(a, n)[i], Fit(b, n)[i])]

\* number of one bits
PopCount(a) == FoldLeft(LAMBDA acc, b : acc + (b % 2) + ((b \div 2) % 2) + ((b \div 4) % 2) + ((b \div 8) % 2)
                                         + ((b \div 16) % 2) + ((b \div 32) % 2) + ((b \div 64) % 2) + (b \div 128),
                        0, a)

\* handy constants
W(x) == Norm(LE(x, 4))      \* from a TLC-sized natural (< 2^31)
=============================================================================
