------------------------------ MODULE MC_Window ------------------------------
(* Layer I vs Layer P for the signature replay window (C07).                  *)
(* Impl: frame.Reader's window as coded - curReadSignatureTime as an unsigned *)
(* 64-bit integer with 0 meaning "none", the comparison in 64-bit wrap-around *)
(* arithmetic (variant "fixed": ts + W < cur; variant "old": ts < cur - W,    *)
(* the arithmetic of the pinned commit, kept to show what TLC finds on it).   *)
(* Monitor: PReader's TooOld/MaxTs with exact arithmetic.                     *)
(* All histories over the boundary alphabet: the state is (cur, newest), so   *)
(* exhaustive exploration of the reachable pairs covers histories of every    *)
(* length, not just a depth bound.                                            *)
EXTENDS Integers, Sequences, TLC, Wide

CONSTANT Variant      \* "fixed" | "old"

Win == <<64, 66, 15>>   \* 1 000 000
None == <<>>

Alphabet == { <<0,0,0,0,0,0>>, <<1,0,0,0,0,0>>, <<5,0,0,0,0,0>>, <<63,66,15,0,0,0>>, <<64,66,15,0,0,0>>, <<65,66,15,0,0,0>>,
              <<127,132,30,0,0,0>>, <<128,132,30,0,0,0>>, <<129,132,30,0,0,0>>,
              <<0,0,0,0,0,128>>, <<254,255,255,255,255,255>>, <<255,255,255,255,255,255>> }

VARIABLES cur,      \* implementation: 8-byte unsigned, zero = none
          newest,   \* monitor
          agree

\* implementation decision
ImplRefuse(ts) ==
  /\ ~IsZero(cur)
  /\ IF Variant = "fixed" THEN Lt(AddN(ts, Win, 8), cur)
     ELSE Lt(Fit(ts, 8), SubN(cur, Win, 8))
ImplUpdate(ts) == IF Lt(cur, Fit(ts, 8)) THEN Fit(ts, 8) ELSE cur

\* monitor decision (the property)
TooOld(ts) == newest # None /\ Lt(Add(ts, Win), newest)
MaxTs(ts) == IF newest = None \/ Lt(newest, ts) THEN ts ELSE newest

Init == cur = Zeros(8) /\ newest = None /\ agree = TRUE
Next == \E ts \in Alphabet :
  LET ri == ImplRefuse(ts)
      rm == TooOld(ts)
  IN /\ agree' = (ri = rm)
     /\ cur' = IF ri THEN cur ELSE ImplUpdate(ts)
     /\ newest' = IF rm THEN newest ELSE MaxTs(ts)

Agree == agree
\* the implementation's register is the monitor's state (0 standing for "none or 0")
Refines == IF newest = None THEN IsZero(cur) ELSE Eq(cur, newest)
=============================================================================
