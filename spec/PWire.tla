-------------------------------- MODULE PWire --------------------------------
(* Layer P - contract monitor for the stateless codec properties.  One record *)
(* per call of the real code: inputs and outputs.  For each record kind       *)
(* Check_<kind>(r) returns the set of names of the property clauses the       *)
(* record violates ({} = the record is allowed by the property).  Clauses     *)
(* whose name starts with "H_" are sanity conditions on the harness input,    *)
(* not property clauses (a failure there is INCONCLUSIVE, never a VIOLATION). *)
EXTENDS Integers, Sequences, SequencesExt, FiniteSets, MavFrame, MavMessage

Failed(clauses) == {clauses[i][1] : i \in {j \in 1..Len(clauses) : ~clauses[j][2]}}

-----------------------------------------------------------------------------
\* C01 - frame.Writer.Write on a frame carrying a raw message
Check_FW(r) ==
  IF Representable(r.f)
  THEN Failed(<< <<"no_panic", ~r.panic>>,
                 <<"accepted", ~r.err>>,
                 <<"layout", r.out = Marshal(r.f)>>,
                 <<"length", Len(r.out) = MarshalLen(r.f)>> >>)
  ELSE Failed(<< <<"no_panic", ~r.panic>>,
                 <<"refused", r.err>>,
                 <<"nothing_emitted", r.out = <<>> >> >>)

\* C01 - frame.Reader.Read on exactly one well-formed frame (no key; id unknown to the dialect)
ReadClauses(in, res, next) ==
  LET p == Parse(in) IN
  << <<"H_whole_frame", p.k = "frame" /\ p.n = Len(in)>>,
     <<"no_panic", res.k # "panic">>,
     <<"delivered", res.k = "frame">>,
     <<"equal", res.k = "frame" /\ p.k = "frame" => FrameEq(res.f, p.f) /\ FrameEq(p.f, res.f)>>,
     <<"consumed_all", next = "eof">> >>

Check_FR(r) == Failed(ReadClauses(r.in, r.res, r.next))

\* C01 - spec -> code vector: bytes computed by TLC (Gen_Frame), read and re-written by the code
Check_VEC(r) ==
  Failed(<< <<"H_vector", r.bytes = Marshal(r.f) /\ WellFormed(r.f)>> >>
         \o ReadClauses(r.bytes, r.res, r.next)
         \o << <<"vec_equal", r.res.k = "frame" => FrameEq(r.f, r.res.f)>>,
               <<"write_no_panic", ~r.panic>>,
               <<"write_accepted", ~r.err>>,
               <<"write_layout", r.out = r.bytes>> >>)
-----------------------------------------------------------------------------
\* C03 - a message definition (reflected Go struct `raw`) as initialised by the library:
\* CRC_EXTRA and the base / extended payload sizes are those the spec derives
Check_DEF(r, raw) ==
  IF ~DefValid(raw) THEN Failed(<< <<"no_panic", ~r.panic>>, <<"malformed_rejected", ~r.init_ok>> >>)
  ELSE LET def == FromGo(raw) IN
       Failed(<< <<"no_panic", ~r.panic>>,
                 <<"init_ok", r.init_ok>>,
                 <<"crc_extra", r.crc = CrcExtra(def)>>,
                 <<"size_base", r.size_v1 = SizeBase(def)>>,
                 <<"size_ext", r.size_v2 = SizeExt(def)>>,
                 <<"fits_255", SizeExt(def) <= 255>> >>)

\* C03 / C04 - message.ReadWriter.Write of a value assignment, then Read of the result
Check_ENC(r, raw) ==
  LET def == FromGo(raw) IN
  Failed(<< <<"no_panic", ~r.panic /\ ~r.dec_panic>>,
            <<"layout", r.out = Encode(def, r.vals, r.v2)>>,
            <<"v2_min_one_byte", r.v2 /\ SizeExt(def) > 0 => Len(r.out) >= 1>>,
            <<"v2_no_trailing_zero", r.v2 /\ Len(r.out) > 1 => r.out[Len(r.out)] # 0>>,
            <<"v1_exact_base", ~r.v2 => Len(r.out) = SizeBase(def)>>,
            <<"decodes", r.dec_ok>>,
            <<"round_trip", r.dec_ok => r.dec = Canon(def, r.vals, r.v2)>>,
            <<"buffer_untouched", ~r.src_mod /\ ~r.tail_mod>> >>)

\* C04 - message.ReadWriter.Read of an arbitrary payload
Check_DEC(r, raw) ==
  LET def == FromGo(raw)
      d == Decode(def, r["in"], r.v2)
  IN Failed(<< <<"no_panic", ~r.panic>>,
               <<"ok_iff_spec", r.ok = d.ok>>,
               <<"values", (r.ok /\ d.ok) => r.vals = d.vals>>,
               <<"payload_untouched", ~r.src_mod>>,
               <<"tail_untouched", ~r.tail_mod>> >>)
=============================================================================
