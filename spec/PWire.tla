-------------------------------- MODULE PWire --------------------------------
(* Layer P - contract monitor for the stateless codec properties.  One record *)
(* per call of the real code: inputs and outputs.  For each record kind       *)
(* Check_<kind>(r) returns the set of names of the property clauses the       *)
(* record violates ({} = the record is allowed by the property).  Clauses     *)
(* whose name starts with "H_" are sanity conditions on the harness input,    *)
(* not property clauses (a failure there is INCONCLUSIVE, never a VIOLATION). *)
EXTENDS Integers, Sequences, SequencesExt, FiniteSets, MavFrame

Failed(clauses) == {clauses[i][1] : i \in {j \in 1..Len(clauses) : ~clauses[j][2]}}

-----------------------------------------------------------------------------
\* C01 - frame.Writer.Write on a frame carrying a raw message
Check_FW(r) ==
  IF Representable(r.f)
  THEN Failed(<< <<"no_panic", ~r.panic>>,
                 <<"accepted", ~r.err>>,
                 <<"layout", r.out = Marshal(r.f)>>,
                 <<"length", Len(r.out) = MarshalLen(r.f)>> >>)
  ELSE Failed(<< <<"no_panic", ~r.panic>>,
                 <<"refused", r.err>>,
                 <<"nothing_emitted", r.out = <<>> >> >>)

\* C01 - frame.Reader.Read on exactly one well-formed frame (no key; id unknown to the dialect)
ReadClauses(in, res, next) ==
  LET p == Parse(in) IN
  << <<"H_whole_frame", p.k = "frame" /\ p.n = Len(in)>>,
     <<"no_panic", res.k # "panic">>,
     <<"delivered", res.k = "frame">>,
     <<"equal", res.k = "frame" /\ p.k = "frame" => FrameEq(res.f, p.f) /\ FrameEq(p.f, res.f)>>,
     <<"consumed_all", next = "eof">> >>

Check_FR(r) == Failed(ReadClauses(r.in, r.res, r.next))

\* C01 - spec -> code vector: bytes computed by TLC (Gen_Frame), read and re-written by the code
Check_VEC(r) ==
  Failed(<< <<"H_vector", r.bytes = Marshal(r.f) /\ WellFormed(r.f)>> >>
         \o ReadClauses(r.bytes, r.res, r.next)
         \o << <<"vec_equal", r.res.k = "frame" => FrameEq(r.f, r.res.f)>>,
               <<"write_no_panic", ~r.panic>>,
               <<"write_accepted", ~r.err>>,
               <<"write_layout", r.out = r.bytes>> >>)
=============================================================================
