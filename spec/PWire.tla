-------------------------------- MODULE PWire --------------------------------
(* Layer P - contract monitor for the stateless codec properties.  One record *)
(* per call of the real code: inputs and outputs.  For each record kind       *)
(* Check_<kind>(r) returns the set of names of the property clauses the       *)
(* record violates ({} = the record is allowed by the property).  Clauses     *)
(* whose name starts with "H_" are sanity conditions on the harness input,    *)
(* not property clauses (a failure there is INCONCLUSIVE, never a VIOLATION). *)
EXTENDS Integers, Sequences, SequencesExt, FiniteSets, MavFrame, MavMessage

Failed(clauses) == {clauses[i][1] : i \in {j \in 1..Len(clauses) : ~clauses[j][2]}}

-----------------------------------------------------------------------------
\* C01 - frame.Writer.Write on a frame carrying a raw message
Check_FW(r) ==
  IF Representable(r.f)
  THEN Failed(<< <<"no_panic", ~r.panic>>,
                 <<"accepted", ~r.err>>,
                 <<"layout", r.out = Marshal(r.f)>>,
                 <<"length", Len(r.out) = MarshalLen(r.f)>> >>)
  ELSE Failed(<< <<"no_panic", ~r.panic>>,
                 <<"refused", r.err>>,
                 <<"nothing_emitted", r.out = <<>> >> >>)

\* C01 - frame.Writer.Write on a frame carrying a decoded message of the dialect: the writer encodes it
Check_FWM(r, raw) ==
  LET f == [r.f EXCEPT !.payload = Encode(FromGo(raw), r.vals, r.f.v = 2)] IN
  Failed(<< <<"no_panic", ~r.panic>>,
            <<"accepted", ~r.err>>,
            <<"layout_with_encoded_message", r.out = Marshal(f)>>,
            <<"one_transport_write_or_more_but_whole", Len(r.out) = MarshalLen(f)>> >>)

\* C01 - frame.Reader.Read on exactly one well-formed frame (no key; id unknown to the dialect)
ReadClauses(in, res, next) ==
  LET p == Parse(in) IN
  << <<"H_whole_frame", p.k = "frame" /\ p.n = Len(in)>>,
     <<"no_panic", res.k # "panic">>,
     <<"delivered", res.k = "frame">>,
     <<"equal", res.k = "frame" /\ p.k = "frame" => FrameEq(res.f, p.f) /\ FrameEq(p.f, res.f)>>,
     <<"consumed_all", next = "eof">> >>

Check_FR(r) == Failed(ReadClauses(r.in, r.res, r.next))

\* C01 - spec -> code vector: bytes computed by TLC (Gen_Frame), read and re-written by the code
Check_VEC(r) ==
  Failed(<< <<"H_vector", r.bytes = Marshal(r.f) /\ WellFormed(r.f)>> >>
         \o ReadClauses(r.bytes, r.res, r.next)
         \o << <<"vec_equal", r.res.k = "frame" => FrameEq(r.f, r.res.f)>>,
               <<"write_no_panic", ~r.panic>>,
               <<"write_accepted", ~r.err>>,
               <<"write_layout", r.out = r.bytes>> >>)
-----------------------------------------------------------------------------
\* C02 (a) - the real checksum step on all 65536 x 256 (register, byte) pairs reachable after first byte b1:
\* sums[b2 * 256 + b3 + 1] is the real Sum16 after the bytes b1 b2 b3
Check_X25ALL(r) ==
  LET s1 == X25!TableStep(X25!Init, r.b1)
      bad == {i \in 0..65535 : r.sums[i + 1] # X25!TableStep(X25!TableStep(s1, i \div 256), i % 256)}
  IN Failed(<< <<"H_len", Len(r.sums) = 65536>>, <<"crc_step", bad = {}>> >>)

\* C02 (b) - any byte string fed in any split; Sum16 / Sum / Reset
Check_X25S(r) ==
  LET data == FlattenSeq(r.chunks)
      c == X25!Crc(data)
  IN Failed(<< <<"sum16", r.sum16 = c>>,
               <<"sum16_idempotent", r.again = c>>,
               <<"sum_appends_le", r.sum = r.prefix \o <<c % 256, c \div 256>> >>,
               <<"reset", r.after_reset = c>>,
               <<"size", r.size = 2>> >>)

-----------------------------------------------------------------------------
\* C14 - timednetconn: every Read (Write) on the wrapped connection is immediately preceded by its own
\* SetReadDeadline (SetWriteDeadline) whose deadline is the timeout from the moment of the call
Check_TIMED(r) ==
  LET n == Len(r.ops)
      io == {i \in 1..n : r.ops[i].op \in {"Read", "Write"}}
      armed(i) ==
        /\ i > 1
        /\ r.ops[i - 1].op = (IF r.ops[i].op = "Read" THEN "SetReadDeadline" ELSE "SetWriteDeadline")
        /\ LET want == IF r.ops[i].op = "Read" THEN r.read_ms ELSE r.write_ms
               d == r.ops[i - 1].dl - r.ops[i].t
           IN d >= want - 50 /\ d <= want + 50
  IN Failed(<< <<"H_calls_recorded", Cardinality(io) = r.calls>>,
               <<"every_call_armed_with_a_fresh_deadline", \A i \in io : armed(i)>> >>)

\* C01 - REWRITE: the same frame objects (decoded messages) written through writer 1, writer 2 and writer 1 again
Check_REWRITE(r) ==
  Failed(<< <<"no_panic", ~r.panic>>,
            <<"writes_some_frames", ParseAll(r.out1).ok /\ Len(ParseAll(r.out1).frames) = r.frames>>,
            <<"a_frame_says_the_same_whatever_was_written_in_between", r.out2 = r.out1 /\ r.out3 = r.out1>> >>)

-----------------------------------------------------------------------------
\* C03 - a message definition (reflected Go struct `raw`) as initialised by the library:
\* CRC_EXTRA and the base / extended payload sizes are those the spec derives
Check_DEF(r, raw) ==
  IF ~DefValid(raw) THEN Failed(<< <<"no_panic", ~r.panic>>, <<"malformed_rejected", ~r.init_ok>> >>)
  ELSE LET def == FromGo(raw) IN
       Failed(<< <<"no_panic", ~r.panic>>,
                 <<"init_ok", r.init_ok>>,
                 <<"crc_extra", r.crc = CrcExtra(def)>>,
                 <<"size_base", r.size_v1 = SizeBase(def)>>,
                 <<"size_ext", r.size_v2 = SizeExt(def)>>,
                 <<"fits_255", SizeExt(def) <= 255>> >>)

\* C03 / C04 - message.ReadWriter.Write of a value assignment, then Read of the result
Check_ENC(r, raw) ==
  LET def == FromGo(raw) IN
  Failed(<< <<"no_panic", ~r.panic /\ ~r.dec_panic>>,
            <<"layout", r.out = Encode(def, r.vals, r.v2)>>,
            <<"v2_min_one_byte", r.v2 /\ SizeExt(def) > 0 => Len(r.out) >= 1>>,
            <<"v2_no_trailing_zero", r.v2 /\ Len(r.out) > 1 => r.out[Len(r.out)] # 0>>,
            <<"v1_exact_base", ~r.v2 => Len(r.out) = SizeBase(def)>>,
            <<"decodes", r.dec_ok>>,
            <<"round_trip", r.dec_ok => r.dec = Canon(def, r.vals, r.v2)>>,
            <<"buffer_untouched", ~r.src_mod /\ ~r.tail_mod>>,
            <<"same_payload_decodes_the_same_after_caller_edit", ~r.again_differs>>,
            <<"decoded_message_outlives_the_callers_buffer", ~r.aliases_input>> >>)

\* C04 - message.ReadWriter.Read of an arbitrary payload
Check_DEC(r, raw) ==
  LET def == FromGo(raw)
      d == Decode(def, r["in"], r.v2)
  IN Failed(<< <<"no_panic", ~r.panic>>,
               <<"ok_iff_spec", r.ok = d.ok>>,
               <<"values", (r.ok /\ d.ok) => r.vals = d.vals>>,
               <<"payload_untouched", ~r.src_mod>>,
               <<"tail_untouched", ~r.tail_mod>>,
               <<"same_payload_decodes_the_same_after_caller_edit", ~r.again_differs>>,
            <<"decoded_message_outlives_the_callers_buffer", ~r.aliases_input>> >>)
=============================================================================
