------------------------------- MODULE SHA256 -------------------------------
(* SHA-256 (FIPS 180-4) in pure TLA+.  TLC integers are 32-bit signed, so a   *)
(* 32-bit word is a pair <<hi, lo>> of 16-bit halves.  Written from the       *)
(* standard, not from any implementation; validated against the FIPS test     *)
(* vectors below (ASSUMEs) and against Python's hashlib while designing.      *)
EXTENDS Integers, Sequences, SequencesExt, Bitwise

M16 == 65536

WXor(a, b) == <<a[1] ^^ b[1], a[2] ^^ b[2]>>
WAnd(a, b) == <<a[1] & b[1], a[2] & b[2]>>
WNot(a)    == <<65535 - a[1], 65535 - a[2]>>
WAdd(a, b) == LET lo == a[2] + b[2]
                  hi == a[1] + b[1] + (lo \div M16)
              IN <<hi % M16, lo % M16>>

\* rotate right by n (0 < n < 32)
Rotr(a, n) ==
  IF n = 16 THEN <<a[2], a[1]>>
  ELSE IF n < 16
       THEN LET p == 2 ^ n
                q == 2 ^ (16 - n)
            IN <<(a[1] \div p) + (a[2] % p) * q, (a[2] \div p) + (a[1] % p) * q>>
       ELSE LET m == n - 16
                p == 2 ^ m
                q == 2 ^ (16 - m)
            IN <<(a[2] \div p) + (a[1] % p) * q, (a[1] \div p) + (a[2] % p) * q>>

\* logical shift right by n (0 < n < 16 is all SHA-256 needs: 3 and 10)
Shr(a, n) ==
  LET p == 2 ^ n
      q == 2 ^ (16 - n)
  IN <<a[1] \div p, (a[2] \div p) + (a[1] % p) * q>>

Ch(x, y, z)  == WXor(WAnd(x, y), WAnd(WNot(x), z))
Maj(x, y, z) == WXor(WXor(WAnd(x, y), WAnd(x, z)), WAnd(y, z))
BSig0(x) == WXor(WXor(Rotr(x, 2), Rotr(x, 13)), Rotr(x, 22))
BSig1(x) == WXor(WXor(Rotr(x, 6), Rotr(x, 11)), Rotr(x, 25))
SSig0(x) == WXor(WXor(Rotr(x, 7), Rotr(x, 18)), Shr(x, 3))
SSig1(x) == WXor(WXor(Rotr(x, 17), Rotr(x, 19)), Shr(x, 10))

K == << <<17034,12184>>, <<28983,17553>>, <<46528,64463>>, <<59829,56229>>,
      <<14678,49755>>, <<23025,4593>>, <<37439,33444>>, <<43804,24277>>,
      <<55303,43672>>, <<4739,23297>>, <<9265,34238>>, <<21772,32195>>,
      <<29374,23924>>, <<32990,45566>>, <<39900,1703>>, <<49563,61812>>,
      <<58523,27073>>, <<61374,18310>>, <<4033,40390>>, <<9228,41420>>,
      <<11753,11375>>, <<19060,33962>>, <<23728,43484>>, <<30457,35034>>,
      <<38974,20818>>, <<43057,50797>>, <<45059,10184>>, <<48985,32711>>,
      <<50912,3059>>, <<54695,37191>>, <<1738,25425>>, <<5161,10599>>,
      <<10167,2693>>, <<11803,8504>>, <<19756,28156>>, <<21304,3347>>,
      <<25866,29524>>, <<30314,2747>>, <<33218,51502>>, <<37490,11397>>,
      <<41663,59553>>, <<43034,26187>>, <<49739,35696>>, <<51052,20899>>,
      <<53650,59417>>, <<54937,1572>>, <<62478,13701>>, <<4202,41072>>,
      <<6564,49430>>, <<7735,27656>>, <<10056,30540>>, <<13488,48309>>,
      <<14620,3251>>, <<20184,43594>>, <<23452,51791>>, <<26670,28659>>,
      <<29839,33518>>, <<30885,25455>>, <<33992,30740>>, <<36039,520>>,
      <<37054,65530>>, <<42064,27883>>, <<48889,41975>>, <<50801,30962>> >>

H0 == << <<27145,58983>>, <<47975,44677>>, <<15470,62322>>, <<42319,62778>>, <<20750,21119>>, <<39685,26764>>, <<8067,55723>>, <<23520,52505>> >>

Idx(n) == [i \in 1..n |-> i]

\* padding: message bytes, 0x80, zeros to 56 mod 64, 64-bit big-endian bit length
\* (messages here are < 2^24 bytes, the top 4 length bytes are zero)
Pad(msg) ==
  LET n == Len(msg)
      z == (119 - (n % 64)) % 64          \* zeros so that n + 1 + z = 56 (mod 64)
      bits == n * 8
  IN msg \o <<128>> \o [i \in 1..z |-> 0]
         \o <<0, 0, 0, 0, (bits \div 16777216) % 256, (bits \div 65536) % 256, (bits \div 256) % 256, bits % 256>>

\* word t (1-based, 1..16) of block b (1-based) of the padded message
BlockWord(p, b, t) ==
  LET o == (b - 1) * 64 + (t - 1) * 4
  IN <<p[o + 1] * 256 + p[o + 2], p[o + 3] * 256 + p[o + 4]>>

\* message schedule of block b: 64 words
Schedule(p, b) ==
  FoldLeft(LAMBDA w, t :
             IF t <= 16 THEN Append(w, BlockWord(p, b, t))
             ELSE Append(w, WAdd(WAdd(SSig1(w[t - 2]), w[t - 7]), WAdd(SSig0(w[t - 15]), w[t - 16]))),
           <<>>, Idx(64))

\* one compression round; s = <<a,b,c,d,e,f,g,h>>
Round(s, w, t) ==
  LET t1 == WAdd(WAdd(WAdd(s[8], BSig1(s[5])), WAdd(Ch(s[5], s[6], s[7]), K[t])), w[t])
      t2 == WAdd(BSig0(s[1]), Maj(s[1], s[2], s[3]))
  IN <<WAdd(t1, t2), s[1], s[2], s[3], WAdd(s[4], t1), s[5], s[6], s[7]>>

Compress(h, p, b) ==
  LET w == Schedule(p, b)
      s == FoldLeft(LAMBDA acc, t : Round(acc, w, t), h, Idx(64))
  IN [i \in 1..8 |-> WAdd(h[i], s[i])]

\* digest as 32 bytes
Hash(msg) ==
  LET p == Pad(msg)
      nb == Len(p) \div 64
      h == FoldLeft(LAMBDA acc, b : Compress(acc, p, b), H0, Idx(nb))
  IN [i \in 1..32 |->
        LET wd == h[((i - 1) \div 4) + 1]
            k == (i - 1) % 4
        IN IF k = 0 THEN wd[1] \div 256 ELSE IF k = 1 THEN wd[1] % 256
           ELSE IF k = 2 THEN wd[2] \div 256 ELSE wd[2] % 256]

\* FIPS 180-4 / NIST example vectors
\* SHA-256("") = e3b0c442 98fc1c14 ...
ASSUME SubSeq(Hash(<<>>), 1, 8) = <<227, 176, 196, 66, 152, 252, 28, 20>>
\* SHA-256("abc") = ba7816bf 8f01cfea 414140de 5dae2223 b00361a3 96177a9c b410ff61 f20015ad
ASSUME Hash(<<97, 98, 99>>) = <<186,120,22,191, 143,1,207,234, 65,65,64,222, 93,174,34,35,
                                176,3,97,163, 150,23,122,156, 180,16,255,97, 242,0,21,173>>
\* two-block message "abcdbcdecdefdefgefghfghighijhijkijkljklmklmnlmnomnopnopq" (56 bytes)
\* = 248d6a61 d20638b8 e5c02693 0c3e6039 a33ce459 64ff2167 f6ecedd4 19db06c1
ASSUME LET m == <<97,98,99,100, 98,99,100,101, 99,100,101,102, 100,101,102,103, 101,102,103,104,
                  102,103,104,105, 103,104,105,106, 104,105,106,107, 105,106,107,108, 106,107,108,109,
                  107,108,109,110, 108,109,110,111, 109,110,111,112, 110,111,112,113>>
       IN SubSeq(Hash(m), 1, 8) = <<36,141,106,97, 210,6,56,184>>
=============================================================================
