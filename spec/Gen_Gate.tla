------------------------------ MODULE Gen_Gate ------------------------------
(* Spec -> code vectors for the checksum gate (C02) and routing (C08): valid  *)
(* frames of dialect messages computed entirely by the specification          *)
(* (payload pattern, CRC_EXTRA from the definition, X.25 checksum).           *)
EXTENDS Integers, Sequences, TLC, Json, IOUtils, MavFrame, MavMessage

Defs == JsonDeserialize(IOEnv.DEFS)
Dl == JsonDeserialize(IOEnv.DIALECT)         \* def indices of the dialect
Mod == atoi(IOEnv.VECMOD)
Off == atoi(IOEnv.VECOFF)

VARIABLE st

Chosen == {k \in 1..Len(Dl) : k % Mod = Off % Mod \/ SizeExt(FromGo(Defs[Dl[k]])) \in {1, 255}
                                \/ Defs[Dl[k]].id >= 65536}      \* ids that need the third id byte

Init == st \in {[k |-> k, v |-> v] : k \in Chosen, v \in {1, 2}}
Next == st' \in {}

Vec ==
  LET d == Dl[st.k]
      def == FromGo(Defs[d])
      v2 == st.v = 2
      full == [i \in 1..(IF v2 THEN SizeExt(def) ELSE SizeBase(def)) |-> (i * 37 + d * 11) % 256]
      pl == IF v2 THEN Truncate(full) ELSE full
      f0 == Mk(st.v, 0, 0, (d * 7) % 256, 1 + (d % 250), (d * 3) % 256, def.id, pl, 0, 0, Z6, <<>>)
      f == [f0 EXCEPT !.ck = Checksum(f0, CrcExtra(def))]
  IN [d |-> d, f |-> f, bytes |-> Marshal(f)]

Emit == (st.v = 2 \/ Defs[Dl[st.k]].id <= 255) => PrintT("VEC " \o ToJson(Vec))
=============================================================================
