INIT Init
NEXT Next
CHECK_DEADLOCK FALSE
INVARIANT OrdRoundTrip
INVARIANT SplitInvertsJoin
INVARIANT NumeralClass
INVARIANT MonitorAccepts
