CONSTANTS M = 4
          MaxOps = 10
          IncrementAt = "before_validation"
INIT Init
NEXT Next
CHECK_DEADLOCK FALSE
INVARIANT Gapless
INVARIANT CounterIsCount
