CONSTANT Variant = "old"
INIT IndInit
NEXT Next
INVARIANT IndInv
