---------------------------- MODULE Gen_SignedDl ----------------------------
(* Spec -> code vectors for a reader that has BOTH an incoming key and a      *)
(* dialect (C06 signature gate, C07 replay window): signed v2 frames computed *)
(* entirely by the specification (payload, CRC_EXTRA checksum, SHA-256).      *)
(*   canon      message of the dialect, canonical (zero-truncated) payload    *)
(*   padded     the same message with its trailing zero bytes NOT removed     *)
(*   extended   full payload followed by bytes beyond the known fields        *)
(*   unknown    a message id the dialect does not contain                     *)
(*   empty      a message of the dialect sent with NO payload bytes at all    *)
(*              (every field zero; a sender may drop all of them): decoded,   *)
(*              and what a reader handed out before must not change with it   *)
(*   forged_pad / forged_ext   a canon frame altered AFTER signing: payload   *)
(*              lengthened (zeros / unknown bytes), length and checksum put   *)
(*              right again, signature block kept - must never be delivered   *)
(*   badck / badck_extra   a frame whose checksum is NOT the one of the       *)
(*              message (one bit off / computed with another CRC_EXTRA, as a  *)
(*              sender with another definition of the message would) and      *)
(*              whose signature is VALID over exactly these bytes: the        *)
(*              signature covers the checksum field but not CRC_EXTRA, so     *)
(*              the checksum gate must still refuse it (C02)                  *)
(* canon and unknown come with every timestamp of a small alphabet so that    *)
(* the harness can build window histories that mix known and unknown ids.     *)
EXTENDS Integers, Sequences, FiniteSets, TLC, Json, IOUtils, MavFrame, MavMessage

Defs == JsonDeserialize(IOEnv.DEFS)
Dl == JsonDeserialize(IOEnv.DIALECT)         \* def indices of the dialect
Seed == atoi(IOEnv.VSEED)

VARIABLE st

Key == [i \in 1..32 |-> (i * 59 + Seed * 13 + 5) % 256]

\* timestamps (48 bits little-endian): 0, 1 000 000, 1 000 001, 2 000 001, 2^48 - 1
TS == << Z6, <<64, 66, 15, 0, 0, 0>>, <<65, 66, 15, 0, 0, 0>>, <<129, 132, 30, 0, 0, 0>>, <<255, 255, 255, 255, 255, 255>> >>

\* three messages of the dialect: picked by the seed among those with room for the variants
Room(k) == LET def == FromGo(Defs[Dl[k]]) IN SizeExt(def) >= 4 /\ SizeExt(def) <= 250
Cands == {k \in 1..Len(Dl) : Room(k)}
Nth(S, n) == CHOOSE x \in S : Cardinality({y \in S : y < x}) = n % Cardinality(S)
Picked == {Nth(Cands, Seed * 7), Nth(Cands, Seed * 7 + 31), Nth(Cands, Seed * 13 + 77)}

UnknownId == CHOOSE id \in 70000..70300 : \A k \in 1..Len(Dl) : Defs[Dl[k]].id # id

Shapes == {"canon", "padded", "extended", "empty", "forged_pad", "forged_ext", "badck", "badck_extra"}

Init == st \in ({[kind |-> "canon", k |-> k, ti |-> ti] : k \in Picked, ti \in 1..Len(TS)}
                \cup {[kind |-> s, k |-> k, ti |-> 4] : s \in Shapes \ {"canon"}, k \in Picked}
                \cup {[kind |-> "unknown", k |-> 0, ti |-> ti] : ti \in 1..Len(TS)})
Next == st' \in {}

\* frames of the unknown id travel with another link id than the dialect messages (one window per reader all the same)
Signed(id, pl, ck, ts) ==
  LET f0 == Mk(2, 1, 0, (7 + Len(pl)) % 256, 3, 190, id, pl, ck, 77, ts, Z6)
  IN [f0 EXCEPT !.sig = Sign(Key, f0)]

WithCk(f, extra) == [f EXCEPT !.ck = Checksum(f, extra)]

Vec ==
  IF st.kind = "unknown"
  THEN LET f == Signed(UnknownId, <<1, 2, 3, (Seed % 200) + 1>>, 4660, TS[st.ti])
       IN [kind |-> st.kind, d |-> 0, ti |-> st.ti, key |-> Key, bytes |-> Marshal(f)]
  ELSE
    LET d == Dl[st.k]
        def == FromGo(Defs[d])
        n == SizeExt(def)
        extra == CrcExtra(def)
        \* nonzero everywhere
        full == [i \in 1..n |-> 1 + ((i * 37 + d * 11) % 255)]
        zeroTail == [i \in 1..n |-> IF i >= n - 1 THEN 0 ELSE full[i]]
        mk(pl) == LET f0 == Mk(2, 1, 0, (7 + Len(pl)) % 256, 3, 190, def.id, pl, 0, 9, TS[st.ti], Z6)
                      f1 == WithCk(f0, extra)
                  IN [f1 EXCEPT !.sig = Sign(Key, f1)]
        canon == mk(IF st.kind = "forged_pad" THEN Truncate(zeroTail) ELSE full)
        f == CASE st.kind = "canon" -> mk(full)
               [] st.kind = "padded" -> mk(zeroTail)
               [] st.kind = "extended" -> mk(full \o <<9, 8, 7>>)
               [] st.kind = "empty" -> mk(<<>>)
               \* wrong checksum under a valid signature (signed last, over the wrong checksum)
               [] st.kind = "badck" -> LET f0 == Mk(2, 1, 0, (7 + Len(full)) % 256, 3, 190, def.id, full, 0, 9, TS[st.ti], Z6)
                                           ck == Checksum(f0, extra)
                                           f1 == [f0 EXCEPT !.ck = IF ck % 2 = 0 THEN ck + 1 ELSE ck - 1]
                                       IN [f1 EXCEPT !.sig = Sign(Key, f1)]
               [] st.kind = "badck_extra" -> LET f0 == Mk(2, 1, 0, (7 + Len(full)) % 256, 3, 190, def.id, full, 0, 9, TS[st.ti], Z6)
                                                 f1 == WithCk(f0, (extra + 1) % 256)
                                             IN [f1 EXCEPT !.sig = Sign(Key, f1)]
               \* altered after signing: signature block of the canonical frame kept
               [] st.kind = "forged_pad" -> WithCk([canon EXCEPT !.payload = zeroTail], extra)
               [] st.kind = "forged_ext" -> WithCk([canon EXCEPT !.payload = full \o <<5, 6>>], extra)
    IN [kind |-> st.kind, d |-> d, ti |-> st.ti, key |-> Key, bytes |-> Marshal(f)]

Emit == PrintT("VEC " \o ToJson(Vec))
=============================================================================
