----------------------------- MODULE MC_Message -----------------------------
(* Exhaustive check of the payload rules of MavMessage on all small message   *)
(* definitions: field reordering is a stable permutation with extensions      *)
(* last, sizes add up, decode(encode(v)) = canon(v) in both versions, and the *)
(* v2 decoder is insensitive to trailing zero bytes removed or appended and   *)
(* to bytes beyond the extended size (the theorems C03/C04 rely on when the   *)
(* trace monitor compares the code against Encode/Decode).                    *)
EXTENDS Integers, Sequences, SequencesExt, FiniteSets, TLC, MavMessage

CONSTANTS MaxFields, MaxLen

VARIABLES def, pl

\* normalised field kinds: name irrelevant here
K(typ, size, n, isstr, gosize) ==
  [name |-> <<120>>, typ |-> typ, size |-> size, n |-> n, crcn |-> n, isstr |-> isstr, gosize |-> gosize, ext |-> FALSE]
Kinds == { K(Types.uint8.mav, 1, 0, FALSE, 1), K(Types.uint16.mav, 2, 0, FALSE, 2),
           K(Types.uint32.mav, 4, 0, FALSE, 4), K(Types.uint64.mav, 8, 0, FALSE, 8),
           K(Types.string.mav, 1, 2, TRUE, 0),  K(Types.uint8.mav, 1, 2, FALSE, 1),
           K(Types.uint16.mav, 2, 0, FALSE, 8) }   \* last: an enum (Go uint64) on a 16-bit wire type

\* all field sequences up to MaxFields with the last e fields marked as extensions
FieldSeqs == UNION {[1..n -> Kinds] : n \in 0..MaxFields}
WithExt(fs, e) == [i \in 1..Len(fs) |-> IF i > Len(fs) - e THEN [fs[i] EXCEPT !.ext = TRUE] ELSE fs[i]]
Defs == {[name |-> <<84>>, id |-> 1, fields |-> WithExt(fs, e)] : fs \in FieldSeqs, e \in 0..MaxFields} 

Payloads == UNION {[1..n -> {0, 1, 2}] : n \in 0..MaxLen}

Init == def \in {d \in Defs : TRUE} /\ pl = <<-1>>
Next == pl = <<-1>> /\ pl' \in Payloads /\ UNCHANGED def

Started == pl # <<-1>>
n == Len(def.fields)
wo == WireOrder(def)
Pos(i) == CHOOSE k \in 1..Len(wo) : wo[k] = i

Permutation == Len(wo) = n /\ {wo[k] : k \in 1..Len(wo)} = 1..n
StableExtLast ==
  \A i, j \in 1..n : i # j =>
    LET fi == def.fields[i]
        fj == def.fields[j]
    IN /\ (~fi.ext /\ fj.ext) => Pos(i) < Pos(j)
       /\ (~fi.ext /\ ~fj.ext /\ fi.size > fj.size) => Pos(i) < Pos(j)
       /\ (~fi.ext /\ ~fj.ext /\ fi.size = fj.size /\ i < j) => Pos(i) < Pos(j)
       /\ (fi.ext /\ fj.ext /\ i < j) => Pos(i) < Pos(j)
\* the property's precondition: extension fields are declared after base fields
ExtAfterBase == \A i, j \in 1..n : (def.fields[i].ext /\ ~def.fields[j].ext) => j < i

\* a value assignment derived from the payload bytes (deterministic probe): element k of field i
ProbeVals == [i \in 1..n |->
   LET f == def.fields[i] IN
   IF f.isstr THEN << [k \in 1..((i + Len(pl)) % 4) |-> IF Len(pl) >= k THEN pl[k] + 64 * ((k + i) % 2) ELSE 65] >>
   ELSE [k \in 1..(IF f.n > 0 THEN f.n ELSE 1) |->
           [b \in 1..f.gosize |-> IF Len(pl) >= ((b + k + i) % 5) + 1 THEN pl[((b + k + i) % 5) + 1] * (17 * b) % 256 ELSE b]]]

SizesAddUp ==
  /\ Len(EncodeFull(def, ProbeVals, TRUE)) = SizeExt(def)
  /\ Len(EncodeFull(def, ProbeVals, FALSE)) = SizeBase(def)
  /\ SizeBase(def) <= SizeExt(def)

RoundTrip ==
  /\ LET d == Decode(def, Encode(def, ProbeVals, TRUE), TRUE)  IN d.ok /\ d.vals = Canon(def, ProbeVals, TRUE)
  /\ LET d == Decode(def, Encode(def, ProbeVals, FALSE), FALSE) IN d.ok /\ d.vals = Canon(def, ProbeVals, FALSE)
  /\ LET e == Encode(def, ProbeVals, TRUE) IN Len(e) > 1 => e[Len(e)] # 0
  /\ SizeExt(def) > 0 => Len(Encode(def, ProbeVals, TRUE)) >= 1

TrailingZeros(p) == LET nz == {i \in 1..Len(p) : p[i] # 0} IN IF nz = {} THEN Len(p) ELSE Len(p) - Max(nz)

V2ZeroInsensitive == Started =>
  LET d == Decode(def, pl, TRUE) IN
  /\ d.ok
  /\ \A k \in 1..3 : Decode(def, pl \o Zeros(k), TRUE) = d
  /\ \A k \in 1..TrailingZeros(pl) : Decode(def, SubSeq(pl, 1, Len(pl) - k), TRUE) = d
  /\ Len(pl) >= SizeExt(def) => Decode(def, pl \o <<1, 2>>, TRUE) = d

V1ExactLength == Started =>
  /\ Decode(def, pl, FALSE).ok = (Len(pl) = SizeBase(def))
  /\ Len(pl) = SizeBase(def) =>
       \A i \in 1..n : def.fields[i].ext => Decode(def, pl, FALSE).vals[i] = ZeroVal(def.fields[i])

\* v1 and v2 agree on base fields
VersionsAgree == Started /\ Len(pl) = SizeBase(def) =>
  \A i \in 1..n : ~def.fields[i].ext => Decode(def, pl, FALSE).vals[i] = Decode(def, pl, TRUE).vals[i]
=============================================================================
