CONSTANTS
  e1 = e1
  e2 = e2
  w1 = w1
  w2 = w2
  Eps = {e1}
  Kind <- KindServer1
  MaxCh = 2
  QCap = 1
  Writers = {}
  NWrites = 0
  WKinds = {"all"}
  MaxIn = 1
  InKinds = {"ok", "fatal"}
  HbTicks = 0
  SrN = 0
  MaxDialFail = 1
  TModes = {"ok"}
  EnvBudget = 1
  StartOpen = FALSE
  AllowClose = TRUE
  Design = "repaired"
SPECIFICATION Spec
PROPERTY CloseTerminates
VIEW View
CHECK_DEADLOCK FALSE
