CONSTANT Variant = "old"
INIT Init
NEXT Next
CHECK_DEADLOCK FALSE
INVARIANT ForwardedValid
INVARIANT SameMessage
INVARIANT SecondHopAccepts
