CONSTANTS
  e1 = e1
  e2 = e2
  w1 = w1
  w2 = w2
  Eps = {e1}
  Kind <- KindCustom1
  MaxCh = 2
  QCap = 1
  Writers = {}
  NWrites = 0
  WKinds = {"all"}
  MaxIn = 2
  InKinds = {"ok", "fatal"}
  HbTicks = 0
  SrN = 0
  MaxDialFail = 1
  TModes = {"ok"}
  EnvBudget = 1
  StartOpen = FALSE
  AllowClose = TRUE
  Design = "pinned"
INIT Init
NEXT Next
INVARIANT NoSendOnClosedEvents
INVARIANT MonitorsGreen
INVARIANT OneAtATimeInv
INVARIANT StreamRequestsBounded
INVARIANT NothingOwedAtQuiescence
INVARIANT WriterAlive
VIEW View
CHECK_DEADLOCK FALSE
