SPECIFICATION Spec
CONSTANTS
  P = 2
  D = 3
  I = 3
  Horizon = 12
  Modes = {"accept", "refuse", "hang"}
  Budget = 5
  Design = "write_extends_deadline"
INVARIANTS OneChannelAtATime FirstAttemptImmediate ReconnectAfterTheDelay ReconnectsAfterEveryFailure DialBounded IdleRule ActiveNotClosed
CHECK_DEADLOCK FALSE
