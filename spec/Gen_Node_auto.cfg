CONSTANTS
  Eps = {"e1", "e2"}
  Kind <- GK2
  MaxCh = 1
  QCap = 3
  Writers = {"w1"}
  NWrites = 1
  WKinds = {"all"}
  MaxIn = 3
  InKinds = {"ap", "ok"}
  HbTicks = 1
  SrN = 2
  MaxDialFail = 0
  TModes = {"ok"}
  EnvBudget = 0
  StartOpen = TRUE
  AllowClose = FALSE
  Design = "repaired"
INIT GInit
NEXT GNext
INVARIANT Emit
CHECK_DEADLOCK FALSE
