--------------------------------- MODULE ISr ---------------------------------
(* Layer I - implementation-shaped model of node_stream_request.go with       *)
(* discrete time: the table lastRequests (sender -> time of its last burst),  *)
(* onEventFrame (a heartbeat of an ArduPilot sender: request when the sender  *)
(* is absent from the table or its entry is at least Period old, then store   *)
(* now) and the cleaner goroutine (a ticker of period Period since the node    *)
(* started: drop the entries that are at least Period old).                    *)
(*                                                                            *)
(* Design = "repaired": the code as it is.                                     *)
(* Design = "wipe":     the cleaner replaces the whole table (a seeded change  *)
(*                      the test suite accepts) - kept to show that TLC        *)
(*                      refutes it (ISr_wipe.cfg).                             *)
(* Design = "noclean":  no cleaner at all: the rule still holds (the cleaner   *)
(*                      is memory hygiene only), the table grows.              *)
(* Design = "scan_then_delete": the cleaner walks the table under a read lock, *)
(*                      lets go of it, and deletes what it found under the    *)
(*                      write lock without looking again (a seeded change     *)
(*                      the test suite accepts): a heartbeat handled between  *)
(*                      the two steps renews an entry that is then deleted -  *)
(*                      TLC refutes it (ISr_scan_then_delete.cfg).            *)
(*                                                                            *)
(* Design = "shared_slot": the table is keyed by (endpoint, system,            *)
(*                      component) instead of (channel, system, component) (a  *)
(*                      seeded change the test suite accepts): two senders    *)
(*                      that differ in their channel only share one entry -   *)
(*                      the second one's first heartbeat gets no burst; TLC   *)
(*                      refutes it (ISr_shared_slot.cfg).                     *)
(*                                                                            *)
(* Refinement statement: the bursts the implementation sends are exactly the  *)
(* ones the rule SrRule!Due prescribes for the heartbeat times seen.          *)
EXTENDS Integers, Sequences, FiniteSets, SrRule

CONSTANTS Senders, Period, Horizon, Design

VARIABLES now,      \* current tick
          last,     \* the table: sender -> tick of its last burst, -1 = absent
          hbs,      \* history: sender -> ticks at which a heartbeat was processed
          bursts,   \* history: sender -> ticks at which a burst was sent
          cleaned,  \* tick of the cleaner's last run
          marked    \* two-step cleaner only: <<TRUE, senders found expired, not deleted yet>>, else <<FALSE, {}>>

vars == <<now, last, hbs, bursts, cleaned, marked>>

Init ==
  /\ now = 0
  /\ last = [s \in Senders |-> -1]
  /\ hbs = [s \in Senders |-> <<>>]
  /\ bursts = [s \in Senders |-> <<>>]
  /\ cleaned = 0
  /\ marked = <<FALSE, {}>>

\* time passes; the cleaner must have run at its ticks before time moves on (the ticker fires, the goroutine is not starved)
Tick ==
  /\ now < Horizon
  /\ (Design = "noclean" \/ now % Period # 0 \/ cleaned = now)
  /\ now' = now + 1
  /\ UNCHANGED <<last, hbs, bursts, cleaned, marked>>

\* the table entry of a sender: its own - a sender is (channel, system, component)
K(s) == IF Design = "shared_slot" THEN CHOOSE x \in Senders : TRUE ELSE s

\* onEventFrame for a heartbeat of sender s (at most one per sender per tick keeps the model finite)
Heartbeat(s) ==
  /\ (IF hbs[s] = <<>> THEN TRUE ELSE hbs[s][Len(hbs[s])] < now)
  /\ hbs' = [hbs EXCEPT ![s] = Append(@, now)]
  /\ IF last[K(s)] < 0 \/ now - last[K(s)] >= Period
     THEN /\ last' = [last EXCEPT ![K(s)] = now]
          /\ bursts' = [bursts EXCEPT ![s] = Append(@, now)]
     ELSE UNCHANGED <<last, bursts>>
  /\ UNCHANGED <<now, cleaned, marked>>

\* the cleaner's tick
Clean ==
  /\ Design \notin {"noclean", "scan_then_delete"}
  /\ now > 0 /\ now % Period = 0 /\ cleaned # now
  /\ cleaned' = now
  /\ last' = IF Design = "wipe" THEN [s \in Senders |-> -1]
             ELSE [s \in Senders |-> IF last[s] >= 0 /\ now - last[s] >= Period THEN -1 ELSE last[s]]
  /\ UNCHANGED <<now, hbs, bursts, marked>>

\* the two-step cleaner: heartbeats may be handled between the steps (time does not pass: Tick waits for cleaned = now)
CleanScan ==
  /\ Design = "scan_then_delete"
  /\ now > 0 /\ now % Period = 0 /\ cleaned # now /\ ~marked[1]
  /\ marked' = <<TRUE, {s \in Senders : last[s] >= 0 /\ now - last[s] >= Period}>>
  /\ UNCHANGED <<now, last, hbs, bursts, cleaned>>

CleanDelete ==
  /\ Design = "scan_then_delete" /\ marked[1]
  /\ last' = [s \in Senders |-> IF s \in marked[2] THEN -1 ELSE last[s]]
  /\ cleaned' = now
  /\ marked' = <<FALSE, {}>>
  /\ UNCHANGED <<now, hbs, bursts>>

Next == Tick \/ Clean \/ CleanScan \/ CleanDelete \/ \E s \in Senders : Heartbeat(s)

Spec == Init /\ [][Next]_vars

\* ---------------------------------------------------------------- properties
\* the implementation sends exactly the bursts the rule prescribes
FollowsTheRule == \A s \in Senders : bursts[s] = Due(hbs[s], Period)

\* consequence stated directly: never two bursts of one sender less than Period apart
NotRepeatedWithinPeriod ==
  \A s \in Senders : \A i \in 1..(Len(bursts[s]) - 1) : bursts[s][i + 1] - bursts[s][i] >= Period

\* memory hygiene (not one of the listed properties): after a cleaner run no entry is Period old or older
TableIsClean == (Design = "repaired" /\ cleaned = now /\ now > 0) => \A s \in Senders : last[s] < 0 \/ now - last[s] < Period
=============================================================================
