----------------------------- MODULE Gen_Signed -----------------------------
(* Spec -> code vectors for link signing (C06) and the replay window (C07):   *)
(* signed v2 frames computed entirely by the specification (SHA-256 in TLA+). *)
(* MODE = "sig": keys x payload lengths;  MODE = "win": the timestamp         *)
(* alphabet of C07 with one key and one payload.                              *)
EXTENDS Integers, Sequences, TLC, Json, IOUtils, MavFrame

Mode == IOEnv.MODE
Seed == atoi(IOEnv.VSEED)

VARIABLE st

KeyOf(k) == CASE k = 1 -> Zeros(32)
              [] k = 2 -> Rep(255, 32)
              [] OTHER -> [i \in 1..32 |-> (i * 53 + Seed * 7 + k) % 256]

\* C07 alphabet, little-endian 48-bit: 0,1,5,999999,1000000,1000001,1999999,2000000,2000001,2^47,2^48-2,2^48-1
WinAlphabet == << Z6, <<1,0,0,0,0,0>>, <<5,0,0,0,0,0>>, <<63,66,15,0,0,0>>, <<64,66,15,0,0,0>>, <<65,66,15,0,0,0>>,
                  <<127,132,30,0,0,0>>, <<128,132,30,0,0,0>>, <<129,132,30,0,0,0>>,
                  <<0,0,0,0,0,128>>, <<254,255,255,255,255,255>>, <<255,255,255,255,255,255>> >>

SigStates == {[k |-> k, n |-> n] : k \in 1..3, n \in {0, 1, 45, 46, 255}}
WinStates == {[k |-> 3, i |-> i] : i \in 1..Len(WinAlphabet)}

Init == st \in (IF Mode = "sig" THEN SigStates ELSE WinStates)
Next == st' \in {}

Frame ==
  LET key == KeyOf(st.k)
      n == IF Mode = "sig" THEN st.n ELSE 3
      pl == [i \in 1..n |-> (i * 29 + Seed) % 256]
      ts == IF Mode = "sig" THEN [i \in 1..6 |-> (i * 41 + st.n + Seed) % 256] ELSE WinAlphabet[st.i]
      \* the window is one per reader, whatever link id a frame carries: the alphabet alternates between two link ids
      link == IF Mode = "win" /\ st.i % 2 = 0 THEN 203 ELSE 17 * st.k
      f0 == Mk(2, 1, 0, (7 + n) % 256, 1 + st.k, 190, 30000 + n, pl, (n * 257 + 4660) % 65536, link, ts, Z6)
      f == [f0 EXCEPT !.sig = Sign(key, f0)]
  IN [key |-> key, f |-> f, bytes |-> Marshal(f), i |-> IF Mode = "sig" THEN 0 ELSE st.i]

Emit == PrintT("VEC " \o ToJson(Frame))
=============================================================================
