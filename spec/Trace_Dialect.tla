---------------------------- MODULE Trace_Dialect ----------------------------
(* Code -> spec conformance for the dialect-level records (C17, C19, C18):    *)
(* ENUM, DIALECT, XTYPE, XENUM, GOLD, DINIT, GEN.                             *)
EXTENDS Integers, Sequences, TLC, Json, IOUtils, EnumText

Trace == ndJsonDeserialize(IOEnv.TRACE)
DefsFile == IF IOEnv.DEFS = "-" THEN <<>> ELSE JsonDeserialize(IOEnv.DEFS)

PD == INSTANCE PDialect WITH Defs <- DefsFile

VARIABLE l

Init == l = 1

Next ==
  /\ l <= Len(Trace)
  /\ LET r == Trace[l] IN
     CASE r.e = "ENUM" ->
            LET bad == Check_ENUM(r) IN
            IF bad = {} THEN TRUE
            ELSE PrintT(<<"REJECT", l, r.seq, r.e, bad, [c \in bad |-> FailingProbes(r, c)]>>)
       [] OTHER ->
            LET bad == CASE r.e = "DIALECT" -> PD!Check_DIALECT(r)
                         [] r.e = "XTYPE" -> PD!Check_XTYPE(r)
                         [] r.e = "XENUM" -> PD!Check_XENUM(r)
                         [] r.e = "GOLD" -> PD!Check_GOLD(r)
                         [] r.e = "DINIT" -> PD!Check_DINIT(r)
                         [] r.e = "GEN" -> PD!Check_GEN(r)
                         [] OTHER -> {"H_unknown_record_kind"}
            IN IF bad = {} THEN TRUE ELSE PrintT(<<"REJECT", l, r.seq, r.e, bad>>)
  /\ l' = l + 1

Done == (l = Len(Trace) + 1) => PrintT(<<"WALKED", Len(Trace)>>)
=============================================================================
