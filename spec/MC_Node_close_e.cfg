CONSTANTS
  e1 = e1
  e2 = e2
  w1 = w1
  w2 = w2
  Eps = {e1}
  Kind <- KindCustom1
  MaxCh = 1
  QCap = 2
  Writers = {}
  NWrites = 0
  WKinds = {"all"}
  MaxIn = 1
  InKinds = {"ap", "ok"}
  HbTicks = 0
  SrN = 2
  MaxDialFail = 1
  TModes = {"ok"}
  EnvBudget = 1
  StartOpen = FALSE
  AllowClose = TRUE
  Design = "repaired"
SPECIFICATION Spec
PROPERTY CloseTerminates
VIEW View
CHECK_DEADLOCK FALSE
