----------------------------- MODULE MavMessage -----------------------------
(* MAVLink message payload rules, from the serialization guide                *)
(* (mavlink.io/en/guide/serialization.html: field reordering, CRC_EXTRA,      *)
(* payload truncation, extensions) - not from the Go code.                    *)
(*                                                                            *)
(* A message definition arrives as the reflected Go struct ("raw def"):       *)
(*   [goname (chars of the struct name), id,                                  *)
(*    fields: <<[goname, mavname, gokind, mavenum, arr, mavlen, ext]>>]       *)
(* in declaration order.  FromGo maps it to the MAVLink definition the        *)
(* library's documented conventions assign to it: message "MessageFooBar" is  *)
(* FOO_BAR, field "FooBar" is foo_bar unless a mavname tag gives the name,    *)
(* mavenum gives the wire type of an enum field, mavlen the length of a       *)
(* char[] field, mavext marks extension fields.                               *)
(*                                                                            *)
(* Values: one entry per field in declaration order; an entry is a sequence   *)
(* of elements; a numeric element is the little-endian byte sequence of the   *)
(* Go-level value (enums: 8 bytes; floats: IEEE bits); a string field has one *)
(* element, the bytes of the string.                                          *)
EXTENDS Integers, Sequences, SequencesExt, FiniteSets, FiniteSetsExt, Wide

LOCAL X25 == INSTANCE X25

Types ==
  [float64 |-> [mav |-> <<100,111,117,98,108,101>>, size |-> 8],
   uint64 |-> [mav |-> <<117,105,110,116,54,52,95,116>>, size |-> 8],
   int64 |-> [mav |-> <<105,110,116,54,52,95,116>>, size |-> 8],
   float32 |-> [mav |-> <<102,108,111,97,116>>, size |-> 4],
   uint32 |-> [mav |-> <<117,105,110,116,51,50,95,116>>, size |-> 4],
   int32 |-> [mav |-> <<105,110,116,51,50,95,116>>, size |-> 4],
   uint16 |-> [mav |-> <<117,105,110,116,49,54,95,116>>, size |-> 2],
   int16 |-> [mav |-> <<105,110,116,49,54,95,116>>, size |-> 2],
   uint8 |-> [mav |-> <<117,105,110,116,56,95,116>>, size |-> 1],
   int8 |-> [mav |-> <<105,110,116,56,95,116>>, size |-> 1],
   string |-> [mav |-> <<99,104,97,114>>, size |-> 1]]

IsUpper(c) == c \in 65..90
ToLower(c) == IF IsUpper(c) THEN c + 32 ELSE c
ToUpper(c) == IF c \in 97..122 THEN c - 32 ELSE c
Map(s, Op(_)) == [i \in 1..Len(s) |-> Op(s[i])]

\* "_" before every upper-case letter, first character dropped
Underscored(cs) == Tail(FlattenSeq([i \in 1..Len(cs) |-> IF IsUpper(cs[i]) THEN <<95, cs[i]>> ELSE <<cs[i]>>]))
GoToDefField(cs) == Map(Underscored(cs), ToLower)
GoToDefMsg(cs)   == Map(Underscored(cs), ToUpper)

MessagePrefix == <<77, 101, 115, 115, 97, 103, 101>>   \* "Message"
HasMessagePrefix(cs) == Len(cs) >= 7 /\ SubSeq(cs, 1, 7) = MessagePrefix

EnumTypes == {"uint8", "int8", "uint16", "uint32", "int32", "uint64"}

\* is the raw struct acceptable as a message definition at all
FieldValid(rf) ==
  IF rf.mavenum # ""
  THEN rf.gokind = "uint64" /\ rf.mavenum \in EnumTypes
  ELSE /\ rf.gokind \in DOMAIN Types
       /\ rf.gokind = "string" => (rf.mavlen = -1 \/ rf.mavlen \in 0..255)
DefValid(raw) ==
  /\ HasMessagePrefix(raw.goname)
  /\ \A i \in 1..Len(raw.fields) : FieldValid(raw.fields[i])

\* one normalised field
NField(rf) ==
  LET wt == IF rf.mavenum # "" THEN rf.mavenum ELSE rf.gokind
      isstr == rf.mavenum = "" /\ rf.gokind = "string"
      n == IF isstr THEN (IF rf.mavlen >= 0 THEN rf.mavlen ELSE 1) ELSE rf.arr
  IN [name   |-> IF Len(rf.mavname) > 0 THEN rf.mavname ELSE GoToDefField(rf.goname),
      typ    |-> Types[wt].mav,
      size   |-> Types[wt].size,
      n      |-> n,                                   \* elements on the wire (0 = scalar)
      crcn   |-> IF isstr /\ rf.mavlen < 0 THEN 0 ELSE n,  \* array length hashed into CRC_EXTRA (0 = not an array)
      isstr  |-> isstr,
      gosize |-> IF isstr THEN 0 ELSE Types[rf.gokind].size,
      ext    |-> rf.ext]

FromGo(raw) ==
  [name |-> GoToDefMsg(SubSeq(raw.goname, 8, Len(raw.goname))),
   id |-> raw.id,
   fields |-> [i \in 1..Len(raw.fields) |-> NField(raw.fields[i])]]

FieldBytes(f) == f.size * (IF f.n > 0 THEN f.n ELSE 1)

\* indices of fields in wire order: base fields by descending primitive size, declaration
\* order among equals; extension fields last in declaration order
Idx(n) == [i \in 1..n |-> i]
WireOrder(def) ==
  LET ix == Idx(Len(def.fields))
      base(s) == SelectSeq(ix, LAMBDA i : ~def.fields[i].ext /\ def.fields[i].size = s)
  IN base(8) \o base(4) \o base(2) \o base(1) \o SelectSeq(ix, LAMBDA i : def.fields[i].ext)

BaseOrder(def) == SelectSeq(WireOrder(def), LAMBDA i : ~def.fields[i].ext)

Sum(s) == FoldLeft(LAMBDA a, b : a + b, 0, s)
SizeBase(def) == Sum([k \in 1..Len(BaseOrder(def)) |-> FieldBytes(def.fields[BaseOrder(def)[k]])])
SizeExt(def)  == Sum([k \in 1..Len(def.fields) |-> FieldBytes(def.fields[k])])

\* CRC_EXTRA: X.25 over "NAME " then per base field in wire order "type name " and, for arrays, the length byte
CrcExtraInput(def) ==
  def.name \o <<32>> \o
  FlattenSeq([k \in 1..Len(BaseOrder(def)) |->
     LET f == def.fields[BaseOrder(def)[k]]
     IN f.typ \o <<32>> \o f.name \o <<32>> \o (IF f.crcn > 0 THEN <<f.crcn>> ELSE <<>>)])
CrcExtra(def) == LET c == X25!Crc(CrcExtraInput(def)) IN ((c % 256) + (c \div 256)) - 2 * ByteAnd(c % 256, c \div 256)
                 \* a xor b = a + b - 2 (a and b)

-----------------------------------------------------------------------------
\* Encoding

CutAtNul(bs) ==
  LET z == {i \in 1..Len(bs) : bs[i] = 0}
  IN IF z = {} THEN bs ELSE SubSeq(bs, 1, Min(z) - 1)

EncodeField(f, val) ==
  IF f.isstr THEN Fit(val[1], f.n)
  ELSE FlattenSeq([i \in 1..(IF f.n > 0 THEN f.n ELSE 1) |-> Fit(val[i], f.size)])

EncodeFull(def, vals, v2) ==
  FlattenSeq([k \in 1..Len(WireOrder(def)) |->
     LET i == WireOrder(def)[k]
     IN IF def.fields[i].ext /\ ~v2 THEN <<>> ELSE EncodeField(def.fields[i], vals[i])])

\* v2 payload truncation: trailing zero bytes removed, never below one byte
Truncate(p) ==
  LET nz == {i \in 1..Len(p) : p[i] # 0}
  IN IF Len(p) = 0 THEN p ELSE IF nz = {} THEN SubSeq(p, 1, 1) ELSE SubSeq(p, 1, Max(nz))

Encode(def, vals, v2) == IF v2 THEN Truncate(EncodeFull(def, vals, TRUE)) ELSE EncodeFull(def, vals, FALSE)

\* zero value of a field at Go level
ZeroVal(f) == IF f.isstr THEN << <<>> >> ELSE [i \in 1..(IF f.n > 0 THEN f.n ELSE 1) |-> Zeros(f.gosize)]

\* canonical form the wire imposes on a value
CanonField(f, val) ==
  IF f.isstr THEN <<CutAtNul(Fit(val[1], IF Len(val[1]) < f.n THEN Len(val[1]) ELSE f.n))>>
  ELSE [i \in 1..(IF f.n > 0 THEN f.n ELSE 1) |-> Fit(Fit(val[i], f.size), f.gosize)]

Canon(def, vals, v2) ==
  [i \in 1..Len(def.fields) |->
     IF def.fields[i].ext /\ ~v2 THEN ZeroVal(def.fields[i]) ELSE CanonField(def.fields[i], vals[i])]

\* Decoding.  Result [ok |-> BOOLEAN, vals |-> ...]
DecodeField(f, bs) ==   \* bs has exactly FieldBytes(f) bytes
  IF f.isstr THEN <<CutAtNul(bs)>>
  ELSE [i \in 1..(IF f.n > 0 THEN f.n ELSE 1) |-> Fit(SubSeq(bs, (i - 1) * f.size + 1, i * f.size), f.gosize)]

\* 0-based offset of each field (by declaration index) inside the full payload
Offsets(def, v2) ==
  LET wo == WireOrder(def)
      acc == FoldLeft(LAMBDA a, k :
                 LET i == wo[k]
                     skip == def.fields[i].ext /\ ~v2
                 IN [off |-> [a.off EXCEPT ![i] = a.pos], pos |-> a.pos + (IF skip THEN 0 ELSE FieldBytes(def.fields[i]))],
               [off |-> [i \in 1..Len(def.fields) |-> 0], pos |-> 0], Idx(Len(wo)))
  IN acc.off

Decode(def, payload, v2) ==
  LET need == IF v2 THEN SizeExt(def) ELSE SizeBase(def)
      p == IF v2 THEN (IF Len(payload) < need THEN Fit(payload, need) ELSE payload) ELSE payload
      off == Offsets(def, v2)
  IN IF ~v2 /\ Len(payload) # need THEN [ok |-> FALSE, vals |-> <<>>]
     ELSE [ok |-> TRUE,
           vals |-> [i \in 1..Len(def.fields) |->
                       LET f == def.fields[i]
                       IN IF f.ext /\ ~v2 THEN ZeroVal(f)
                          ELSE DecodeField(f, SubSeq(p, off[i] + 1, off[i] + FieldBytes(f)))]]
=============================================================================
