-------------------------------- MODULE SeqInt --------------------------------
(* Unbounded companion of MC_Writer (C09): the per-link sequence counter over  *)
(* histories of ANY length - inductive invariant for Apalache: the counter is  *)
(* the number of emitted frames modulo 256, so the k-th emitted frame carries  *)
(* k mod 256 (no bound on the number of writes, wrap-around included).         *)
EXTENDS Integers

CONSTANT
  \* @type: Str;
  IncrementAt      \* "after_write" | "before_validation"

VARIABLES
  \* @type: Int;
  next,            \* implementation counter (byte)
  \* @type: Int;
  emitted,         \* number of frames that reached the wire
  \* @type: Bool;
  ok               \* the frame emitted by the last step (if any) carried emitted mod 256

IndInv == next \in 0..255 /\ emitted >= 0 /\ next = emitted % 256 /\ ok
IndInit == emitted \in Nat /\ next = emitted % 256 /\ ok = TRUE
Init == next = 0 /\ emitted = 0 /\ ok = TRUE

Next == \E item \in {"msg_ok", "raw_ok", "raw_outside_dialect", "id_above_255_on_v1", "transport_error"} :
  LET emits == item \in {"msg_ok", "raw_ok"}
      early == IncrementAt = "before_validation"
  IN /\ next' = IF early \/ emits THEN (next + 1) % 256 ELSE next
     /\ emitted' = IF emits THEN emitted + 1 ELSE emitted
     /\ ok' = (emits => next = emitted % 256)
=============================================================================
