CONSTANT Variant = "fixed"
INIT IndInit
NEXT Next
INVARIANT IndInv
