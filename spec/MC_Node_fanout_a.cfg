CONSTANTS
  e1 = e1
  e2 = e2
  w1 = w1
  w2 = w2
  Eps = {e1, e2}
  Kind <- KindCustom2
  MaxCh = 1
  QCap = 2
  Writers = {w1, w2}
  NWrites = 2
  WKinds = {"all", "to", "except"}
  MaxIn = 0
  InKinds = {"ok"}
  HbTicks = 0
  SrN = 0
  MaxDialFail = 1
  TModes = {"ok", "block", "fail"}
  EnvBudget = 2
  StartOpen = TRUE
  AllowClose = FALSE
  Design = "repaired"
INIT Init
NEXT Next
INVARIANT NoSendOnClosedEvents
INVARIANT MonitorsGreen
INVARIANT OneAtATimeInv
INVARIANT StreamRequestsBounded
INVARIANT NothingOwedAtQuiescence
INVARIANT WriterAlive
VIEW View
CHECK_DEADLOCK FALSE
