INIT Init
NEXT Next
CHECK_DEADLOCK FALSE
INVARIANT Emit
