CONSTANT Variant = "fixed"
INIT Init
NEXT Next
INVARIANT Agree
INVARIANT Refines
