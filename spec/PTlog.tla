-------------------------------- MODULE PTlog --------------------------------
(* Layer P - telemetry logs (C20).  File format: a concatenation of entries,  *)
(* each an 8-byte big-endian two's complement Unix time in microseconds       *)
(* followed by one MAVLink frame.                                             *)
(* TLOGW [dl, entries]: one run of the real tlog.Writer; per entry            *)
(*     [sec (8 bytes LE two's complement), nsec, f, d, vals, ok, grew, inj]   *)
(*     grew = bytes appended to the file during the call, inj = a transport   *)
(*     error was injected during the call.                                    *)
(* TLOGR [dl, file, cut, results]: the real tlog.Reader on file[1..cut].      *)
EXTENDS Integers, Sequences, SequencesExt, FiniteSets, MavFrame, MavMessage

CONSTANT Defs

Failed_(clauses) == {clauses[i][1] : i \in {j \in 1..Len(clauses) : ~clauses[j][2]}}

Lookup(dl, id) ==
  LET hits == {k \in 1..Len(dl) : Defs[dl[k]].id = id}
  IN IF hits = {} THEN 0 ELSE dl[CHOOSE k \in hits : TRUE]

\* microseconds since the epoch of (sec, nsec), 8 bytes two's complement little-endian:
\* sec * 10^6 + floor(nsec / 1000)   (arithmetic modulo 2^64 = two's complement)
Micros(sec, nsec) ==
  AddN(Fit(MulSmall(Fit(MulSmall(sec, 1000), 8), 1000), 8), LE(nsec \div 1000, 4), 8)

BE8(le8) == Reverse(le8)

\* the frame an entry denotes: raw as given, or the given header with the encoded message
EntryFrame(e) ==
  IF e.d = 0 THEN e.f ELSE [e.f EXCEPT !.payload = Encode(FromGo(Defs[e.d]), e.vals, e.f.v = 2)]

EntryEncodable(dl, e) ==
  /\ Representable(e.f)
  /\ e.d # 0 => Lookup(dl, Defs[e.d].id) = e.d

Check_TLOGW(r) ==
  UNION {LET e == r.entries[i]
             enc == EntryEncodable(r.dl, e)
             want == BE8(Micros(e.sec, e.nsec)) \o Marshal(EntryFrame(e))
         IN Failed_(<< <<"no_panic", ~e.panic>>,
                       <<"entry_written", (enc /\ ~e.inj) => (e.ok /\ e.grew = want)>>,
                       <<"unencodable_refused", ~enc => ~e.ok>>,
                       <<"unencodable_leaves_no_bytes", ~enc => e.grew = <<>> >>,
                       <<"transport_error_reported", e.inj => ~e.ok>>,
                       <<"nothing_but_a_prefix_of_the_entry", (enc /\ e.inj) => IsPrefix(e.grew, want)>> >>)
         : i \in 1..Len(r.entries)}

\* complete entries of a file prefix: [us, f, end]
Entries(S) ==
  LET step(acc, i) ==
        IF acc.stop \/ i # acc.pos + 1 THEN acc
        ELSE IF Len(S) - acc.pos < 8 THEN [acc EXCEPT !.stop = TRUE]
        ELSE LET p == ParseAt(S, acc.pos + 8)
             IN IF p.k = "frame"
                THEN [acc EXCEPT !.pos = acc.pos + 8 + p.n,
                                 !.es = Append(acc.es, [us |-> SubSeq(S, acc.pos + 1, acc.pos + 8), f |-> p.f])]
                ELSE [acc EXCEPT !.stop = TRUE]
  IN FoldLeft(step, [pos |-> 0, es |-> <<>>, stop |-> FALSE], [i \in 1..Len(S) |-> i])

SameFrame(dl, res, f) ==
  LET d == Lookup(dl, f.id)
  IN IF d = 0 THEN FrameEq(res.f, f) /\ FrameEq(f, res.f)
     ELSE /\ HeaderEq(res.f, f)
          /\ "dec" \in DOMAIN res
          /\ res.dec.vals = Decode(FromGo(Defs[d]), f.payload, f.v = 2).vals

Check_TLOGR(r) ==
  LET S == SubSeq(r.file, 1, r.cut)
      want == Entries(S).es
      got == SelectSeq(r.results, LAMBDA x : x.k = "entry")
      n == Len(r.results)
  IN Failed_(<< <<"no_panic", \A i \in 1..n : r.results[i].k # "panic">>,
                <<"ends_with_error", n > 0 /\ r.results[n].k = "err">>,
                <<"error_only_at_the_end", \A i \in 1..(n - 1) : r.results[i].k = "entry">>,
                <<"exactly_the_complete_entries", Len(got) = Len(want)>>,
                <<"no_fabricated_entry", Len(got) <= Len(want)>>,
                <<"entries_equal", \A i \in 1..(IF Len(got) < Len(want) THEN Len(got) ELSE Len(want)) :
                                      got[i].us = want[i].us /\ SameFrame(r.dl, got[i], want[i].f)>>,
                <<"time_is_whole_microseconds", \A i \in 1..Len(got) : got[i].sub_us = 0>> >>)
=============================================================================
