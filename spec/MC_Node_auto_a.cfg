CONSTANTS
  e1 = e1
  e2 = e2
  w1 = w1
  w2 = w2
  Eps = {e1, e2}
  Kind <- KindCustom2
  MaxCh = 1
  QCap = 2
  Writers = {}
  NWrites = 0
  WKinds = {"all"}
  MaxIn = 2
  InKinds = {"ap", "ok"}
  HbTicks = 1
  SrN = 2
  MaxDialFail = 1
  TModes = {"ok"}
  EnvBudget = 0
  StartOpen = TRUE
  AllowClose = FALSE
  Design = "repaired"
INIT Init
NEXT Next
INVARIANT NoSendOnClosedEvents
INVARIANT MonitorsGreen
INVARIANT OneAtATimeInv
INVARIANT StreamRequestsBounded
INVARIANT NothingOwedAtQuiescence
INVARIANT WriterAlive
VIEW View
CHECK_DEADLOCK FALSE
