----------------------------- MODULE ReconnRule -----------------------------
(* The timing rules of C14 for client-type endpoints and timed connections,   *)
(* as predicates over times.  Used by the PNode monitor on recorded times     *)
(* (ms, with slack for scheduling) and by the implementation-shaped timed     *)
(* model IClient on abstract ticks (slack 0).                                 *)
EXTENDS Integers

\* a (re)connection attempt comes `period` after the failure (close event, failed attempt) that made it necessary
GapOk(gap, period, lo, hi) == gap >= period - lo /\ gap <= period + hi

\* a connection that receives nothing is closed `idle` after the last thing it received (or after it was opened)
IdleCloseOk(closeT, lastRxT, idle, lo, hi) == closeT - lastRxT >= idle - lo /\ closeT - lastRxT <= idle + hi
=============================================================================
