------------------------------ MODULE MavFrame ------------------------------
(* The MAVLink v1 / v2 frame format, from the MAVLink serialization and      *)
(* message-signing documents (mavlink.io/en/guide/serialization.html,        *)
(* .../message_signing.html) - not from the Go code.                         *)
(*                                                                           *)
(* A frame is a record                                                       *)
(*   [v, iflag, cflag, seq, sys, comp, id, payload, ck, link, ts, sig]       *)
(* v \in {1,2}; id < 2^24; payload: bytes; ck: 0..65535; ts: 6 bytes little- *)
(* endian (48 bit); sig: 6 bytes.  For v1 and for unsigned v2 frames the     *)
(* signing fields are link = 0, ts = six zeros, sig = <<>>.                  *)
EXTENDS Integers, Sequences, SequencesExt, Wide

X25 == INSTANCE X25
SHA == INSTANCE SHA256

MagicV1 == 254      \* 0xFE
MagicV2 == 253      \* 0xFD
FlagSigned == 1

Z6 == <<0, 0, 0, 0, 0, 0>>

IsSigned(f) == f.v = 2 /\ f.iflag % 2 = 1

\* frames the format can carry
WellFormed(f) ==
  /\ f.v \in {1, 2}
  /\ f.seq \in 0..255 /\ f.sys \in 0..255 /\ f.comp \in 0..255
  /\ Len(f.payload) <= 255 /\ IsBytes(f.payload)
  /\ f.ck \in 0..65535
  /\ IF f.v = 1 THEN f.id \in 0..255
     ELSE /\ f.id \in 0..16777215
          /\ f.iflag \in {0, 1} /\ f.cflag \in 0..255
          /\ IsSigned(f) => (f.link \in 0..255 /\ Len(f.ts) = 6 /\ IsBytes(f.ts) /\ Len(f.sig) = 6 /\ IsBytes(f.sig))

\* what the chosen version can represent at all (the C01 refusal clause)
Representable(f) == f.v = 2 \/ f.id <= 255

CkLE(f) == <<f.ck % 256, f.ck \div 256>>

\* header bytes after the magic byte
Header(f) ==
  IF f.v = 1
  THEN <<Len(f.payload), f.seq, f.sys, f.comp, f.id>>
  ELSE <<Len(f.payload), f.iflag, f.cflag, f.seq, f.sys, f.comp>> \o LE(f.id, 3)

SigBlock(f) == IF IsSigned(f) THEN <<f.link>> \o f.ts \o f.sig ELSE <<>>

Marshal(f) ==
  <<IF f.v = 1 THEN MagicV1 ELSE MagicV2>> \o Header(f) \o f.payload \o CkLE(f) \o SigBlock(f)

MarshalLen(f) ==
  IF f.v = 1 THEN 6 + Len(f.payload) + 2
  ELSE 10 + Len(f.payload) + 2 + (IF IsSigned(f) THEN 13 ELSE 0)

\* bytes covered by the checksum (CRC_EXTRA appended by the caller)
CrcInput(f) == Header(f) \o f.payload

Checksum(f, crcExtra) == X25!Crc(CrcInput(f) \o <<crcExtra>>)

\* message signing: SHA-256(key | magic header payload crc | link | ts)[0..5]
SigInput(key, f) == key \o <<MagicV2>> \o Header(f) \o f.payload \o CkLE(f) \o <<f.link>> \o f.ts
Sign(key, f) == SubSeq(SHA!Hash(SigInput(key, f)), 1, 6)

-----------------------------------------------------------------------------
\* Prefix parser.  Result: [k |-> "frame", f |-> frame, n |-> bytes consumed]
\*                         [k |-> "more"]  s is a strict prefix of some frame
\*                         [k |-> "junk"]  s[1] is not a frame marker
\*                         [k |-> "badflag", n |-> ...] v2 header with unknown incompat flag
Mk(v, iflag, cflag, seq, sys, comp, id, payload, ck, link, ts, sig) ==
  [v |-> v, iflag |-> iflag, cflag |-> cflag, seq |-> seq, sys |-> sys, comp |-> comp,
   id |-> id, payload |-> payload, ck |-> ck, link |-> link, ts |-> ts, sig |-> sig]

\* parse the frame that starts at 0-based offset o of s
ParseAt(s, o) ==
  LET L == Len(s) - o IN
  IF L <= 0 THEN [k |-> "more"]
  ELSE IF s[o + 1] = MagicV1 THEN
    IF L < 6 THEN [k |-> "more"]
    ELSE LET n == s[o + 2]
             tot == 8 + n
         IN IF L < tot THEN [k |-> "more"]
            ELSE [k |-> "frame", n |-> tot,
                  f |-> Mk(1, 0, 0, s[o + 3], s[o + 4], s[o + 5], s[o + 6], SubSeq(s, o + 7, o + 6 + n),
                           s[o + 7 + n] + 256 * s[o + 8 + n], 0, Z6, <<>>)]
  ELSE IF s[o + 1] = MagicV2 THEN
    IF L < 10 THEN [k |-> "more"]
    ELSE IF s[o + 3] \notin {0, 1} THEN [k |-> "badflag", n |-> 10]
    ELSE LET n == s[o + 2]
             sg == s[o + 3] = 1
             tot == 12 + n + (IF sg THEN 13 ELSE 0)
         IN IF L < tot THEN [k |-> "more"]
            ELSE [k |-> "frame", n |-> tot,
                  f |-> Mk(2, s[o + 3], s[o + 4], s[o + 5], s[o + 6], s[o + 7],
                           s[o + 8] + 256 * s[o + 9] + 65536 * s[o + 10],
                           SubSeq(s, o + 11, o + 10 + n), s[o + 11 + n] + 256 * s[o + 12 + n],
                           IF sg THEN s[o + 13 + n] ELSE 0,
                           IF sg THEN SubSeq(s, o + 14 + n, o + 19 + n) ELSE Z6,
                           IF sg THEN SubSeq(s, o + 20 + n, o + 25 + n) ELSE <<>>)]
  ELSE [k |-> "junk"]

Parse(s) == ParseAt(s, 0)

\* field-by-field equality on the fields the version carries
FrameEq(a, b) ==
  /\ a.v = b.v /\ a.seq = b.seq /\ a.sys = b.sys /\ a.comp = b.comp
  /\ a.id = b.id /\ a.payload = b.payload /\ a.ck = b.ck
  /\ a.v = 2 => /\ a.iflag = b.iflag /\ a.cflag = b.cflag
                /\ IsSigned(a) => (a.link = b.link /\ a.ts = b.ts /\ a.sig = b.sig)

\* header equality used by routing (C08) and fan-out (C11): everything but payload/ck/sig
HeaderEq(a, b) ==
  /\ a.v = b.v /\ a.seq = b.seq /\ a.sys = b.sys /\ a.comp = b.comp /\ a.id = b.id
  /\ a.v = 2 => (a.iflag = b.iflag /\ a.cflag = b.cflag)

\* parse a byte string that must be a whole number of frames.
\* Result: [ok |-> BOOLEAN, frames |-> sequence of frames, pos |-> bytes consumed]
\* (iterative: one fold over the byte positions, no deep recursion)
ParseAll(s) ==
  LET step(acc, i) ==
        IF ~acc.ok \/ i # acc.pos + 1 THEN acc
        ELSE LET p == ParseAt(s, acc.pos)
             IN IF p.k = "frame"
                THEN [ok |-> TRUE, frames |-> Append(acc.frames, p.f), pos |-> acc.pos + p.n]
                ELSE [acc EXCEPT !.ok = FALSE]
  IN FoldLeft(step, [ok |-> TRUE, frames |-> <<>>, pos |-> 0], [i \in 1..Len(s) |-> i])
=============================================================================
