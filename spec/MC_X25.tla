------------------------------- MODULE MC_X25 -------------------------------
(* The table-driven CRC step used for speed equals the bit-serial definition  *)
(* of CRC-16/MCRF4XX on ALL 2^24 (register, byte) pairs; feeding is           *)
(* independent of how the input is split; two bytes fed from the initial      *)
(* register reach every one of the 2^16 register values (so "all 3-byte       *)
(* strings" covers all (register, byte) pairs of the real implementation).    *)
EXTENDS Integers, Sequences, FiniteSets, TLC, X25

VARIABLES hi, lo

MCInit == hi \in 0..255 /\ lo = -1
MCNext == lo = -1 /\ lo' \in 0..255 /\ UNCHANGED hi

Crc16 == hi * 256 + lo

TableEqualsSerial == lo >= 0 => \A b \in 0..255 : TableStep(Crc16, b) = ByteStep(Crc16, b)
StaysInRange      == lo >= 0 => \A b \in {0, 1, 128, 255} : TableStep(Crc16, b) \in 0..65535

\* split independence on all strings up to length 3 over {0, 1, 128, 255}, all split points
Alphabet == {0, 1, 128, 255}
Strings == UNION {[1..n -> Alphabet] : n \in 0..3}
ASSUME \A s \in Strings : \A k \in 0..Len(s) :
          Feed(Feed(Init, SubSeq(s, 1, k)), SubSeq(s, k + 1, Len(s))) = Crc(s)
                /\ FeedSerial(Init, s) = Crc(s)

\* (b1, b2) |-> register is a bijection onto 0..65535
ASSUME Cardinality({Feed(Init, <<a, b>>) : a \in 0..255, b \in 0..255}) = 65536
=============================================================================
