INIT Init
NEXT Next
VIEW View
CHECK_DEADLOCK FALSE
INVARIANT Report
