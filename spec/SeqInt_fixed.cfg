CONSTANT IncrementAt = "after_write"
INIT IndInit
NEXT Next
INVARIANT IndInv
