SPECIFICATION Spec
CONSTANTS
  Senders = {s1, s2}
  Period = 3
  Horizon = 10
  Design = "scan_then_delete"
INVARIANTS FollowsTheRule NotRepeatedWithinPeriod TableIsClean
CHECK_DEADLOCK FALSE
