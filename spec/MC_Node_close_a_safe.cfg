CONSTANTS
  e1 = e1
  e2 = e2
  w1 = w1
  w2 = w2
  Eps = {e1}
  Kind <- KindCustom1
  MaxCh = 2
  QCap = 1
  Writers = {w1}
  NWrites = 1
  WKinds = {"all"}
  MaxIn = 1
  InKinds = {"ok", "fatal"}
  HbTicks = 1
  SrN = 0
  MaxDialFail = 1
  TModes = {"ok", "block"}
  EnvBudget = 1
  StartOpen = FALSE
  AllowClose = TRUE
  Design = "repaired"
INIT Init
NEXT Next
INVARIANT NoSendOnClosedEvents
INVARIANT MonitorsGreen
INVARIANT OneAtATimeInv
INVARIANT StreamRequestsBounded
INVARIANT NothingOwedAtQuiescence
INVARIANT WriterAlive
VIEW View
CHECK_DEADLOCK FALSE
