------------------------------ MODULE EnumText ------------------------------
(* Enum values <-> text (C19).  An enum definition is a sequence of constants *)
(* [name (chars), value (8 bytes little-endian)].  Ordinary enum: a defined   *)
(* value renders as its name, any other value as a decimal numeral.  Bitmask  *)
(* enum: the names of the flags it contains joined by " | ".                  *)
(* ENUM record: [type, bitmask, consts, probes, junk]                         *)
(*   probe = [v, text (MarshalText), merr, back (UnmarshalText(text)), uerr,  *)
(*            back2, uerr2 (the same into a variable holding another value), *)
(*            str (String()), of (indices of the constants OR-ed into v)]     *)
(*   junk  = [text, uerr]                                                     *)
EXTENDS Integers, Sequences, SequencesExt, FiniteSets, FiniteSetsExt, Wide

Failed_(clauses) == {clauses[i][1] : i \in {j \in 1..Len(clauses) : ~clauses[j][2]}}

Sep == <<32, 124, 32>>      \* " | "

\* split a character sequence at every occurrence of Sep (like strings.Split)
Split(cs) ==
  LET n == Len(cs)
      step(acc, i) ==
        IF i < acc.skip THEN acc
        ELSE IF i + 2 <= n /\ cs[i] = 32 /\ cs[i + 1] = 124 /\ cs[i + 2] = 32
             THEN [parts |-> Append(acc.parts, acc.cur), cur |-> <<>>, skip |-> i + 3]
             ELSE [acc EXCEPT !.cur = Append(acc.cur, cs[i])]
      fin == FoldLeft(step, [parts |-> <<>>, cur |-> <<>>, skip |-> 0], [i \in 1..n |-> i])
  IN Append(fin.parts, fin.cur)

IsNumeral(cs) ==
  LET body == IF Len(cs) > 0 /\ cs[1] \in {43, 45} THEN Tail(cs) ELSE cs
  IN IsDecimal(body)

Names(consts) == {consts[i].name : i \in 1..Len(consts)}
NamesOfValue(consts, v) == {consts[i].name : i \in {j \in 1..Len(consts) : Eq(consts[j].value, v)}}
Defined(consts, v) == NamesOfValue(consts, v) # {}

Below2p63(v) == Fit(v, 8)[8] < 128

OrAll(consts, of) == FoldLeft(LAMBDA acc, i : OrN(acc, consts[i].value, 8), Zeros(8), of)

ProbeOrdinary(consts, p) ==
  Failed_(<< <<"no_panic", ~p.panic>>,
             <<"marshal_ok", ~p.merr>>,
             <<"round_trip", ~p.uerr /\ Eq(p.back, p.v)>>,
             <<"round_trip_into_a_used_variable", ~p.uerr2 /\ Eq(p.back2, p.v)>>,
             <<"same_text_again_after_the_caller_overwrote_the_first", ~p.again_differs>>,
             <<"defined_value_renders_its_name", Defined(consts, p.v) => p.text \in NamesOfValue(consts, p.v)>>,
             <<"other_value_renders_decimal", (~Defined(consts, p.v) /\ Below2p63(p.v)) => p.text = ToDecimal(p.v)>>,
             <<"string_equals_text", p.str = p.text>> >>)

ProbeBitmask(consts, p) ==
  LET flags == {i \in ToSet(p.of) : ~IsZero(consts[i].value)}
      single == \A i \in flags : PopCount(consts[i].value) = 1
      parts == Split(p.text)
      vals == {Norm(consts[i].value) : i \in flags}
  IN Failed_(<< <<"H_union_of_defined_flags", Eq(p.v, OrAll(consts, p.of))>>,
                <<"no_panic", ~p.panic>>,
                <<"marshal_ok", ~p.merr>>,
                <<"round_trip", ~p.uerr /\ Eq(p.back, p.v)>>,
                <<"round_trip_into_a_used_variable", ~p.uerr2 /\ Eq(p.back2, p.v)>>,
                <<"same_text_again_after_the_caller_overwrote_the_first", ~p.again_differs>>,
                <<"renders_names_of_contained_flags",
                    (single /\ flags # {}) =>
                       /\ Len(parts) = Cardinality(vals)
                       /\ \A k \in 1..Len(parts) : \E i \in flags : parts[k] = consts[i].name
                       /\ \A i \in flags : \E k \in 1..Len(parts) : parts[k] \in NamesOfValue(consts, consts[i].value)>>,
                <<"string_equals_text", p.str = p.text>> >>)

JunkClauses(consts, j) ==
  LET parts == Split(j.text)
      acceptable == \A k \in 1..Len(parts) : parts[k] \in Names(consts) \/ IsNumeral(parts[k])
  IN Failed_(<< <<"no_panic", ~j.panic>>, <<"junk_rejected", ~acceptable => j.uerr>> >>)

\* result: the set of violated clause names
Check_ENUM(r) ==
  LET pb(i) == IF r.bitmask THEN ProbeBitmask(r.consts, r.probes[i]) ELSE ProbeOrdinary(r.consts, r.probes[i])
      clausesP == UNION {pb(i) : i \in 1..Len(r.probes)}
      clausesJ == UNION {JunkClauses(r.consts, r.junk[i]) : i \in 1..Len(r.junk)}
      clausesC == IF "conc_diff" \in DOMAIN r /\ r.conc_diff # 0 THEN {"same_text_when_converted_concurrently"} ELSE {}
  IN clausesP \cup clausesJ \cup clausesC

\* indices of the probes that fail a given clause (for the finding key)
FailingProbes(r, clause) ==
  {i \in 1..Len(r.probes) :
      clause \in (IF r.bitmask THEN ProbeBitmask(r.consts, r.probes[i]) ELSE ProbeOrdinary(r.consts, r.probes[i]))}
=============================================================================
