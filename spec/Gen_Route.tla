------------------------------ MODULE Gen_Route ------------------------------
(* Spec -> code vectors for routing (C08): for dialect messages the canonical *)
(* encoding and its non-canonical siblings - zeros not truncated, zeros       *)
(* appended, bytes after a string terminator, extensions absent, unknown      *)
(* trailing bytes ending in zero / non-zero - in v1 and v2, signed and        *)
(* unsigned; checksums (and signatures) computed by the specification.        *)
EXTENDS Integers, Sequences, TLC, Json, IOUtils, MavFrame, MavMessage

Defs == JsonDeserialize(IOEnv.DEFS)
Dl == JsonDeserialize(IOEnv.DIALECT)
Mod == atoi(IOEnv.VECMOD)
Off == atoi(IOEnv.VECOFF)

VARIABLE st

HasString(def) == \E i \in 1..Len(def.fields) : def.fields[i].isstr /\ def.fields[i].n >= 4
HasExt(def) == \E i \in 1..Len(def.fields) : def.fields[i].ext
Interesting(def) == HasString(def) \/ HasExt(def)
\* messages whose strings are all extension fields are few and always chosen (a string that exists in v2 only)
ExtOnlyString(def) == /\ \E i \in 1..Len(def.fields) : def.fields[i].isstr /\ def.fields[i].n >= 4 /\ def.fields[i].ext
                      /\ \A i \in 1..Len(def.fields) : def.fields[i].isstr => def.fields[i].ext

Chosen == {k \in 1..Len(Dl) : LET def == FromGo(Defs[Dl[k]]) IN
              SizeExt(def) > 0 /\ ((k % Mod = Off % Mod) \/ ExtOnlyString(def) \/ (Interesting(def) /\ k % (Mod \div 3 + 1) = Off % (Mod \div 3 + 1)))}

Variants == {"canon", "untruncated", "padded", "after_nul", "ext_absent", "trailing_nz", "trailing_z", "v1", "v1_after_nul", "signed"}

Init == st \in {[k |-> k, var |-> v] : k \in Chosen, v \in Variants}
Next == st' \in {}

D == Dl[st.k]
Def == FromGo(Defs[D])

\* pattern payload: non-zero in the first two thirds, zero after (so truncation has work to do)
Pattern(n) == [i \in 1..n |-> IF 3 * i <= 2 * n + 1 THEN 1 + ((i * 37 + D * 11) % 255) ELSE 0]

StrIdx(v2) == LET S == {i \in 1..Len(Def.fields) : Def.fields[i].isstr /\ Def.fields[i].n >= 4 /\ (v2 \/ ~Def.fields[i].ext)}
              IN IF S = {} THEN 0 ELSE CHOOSE i \in S : \A j \in S : i <= j

\* "ab\0X" written into the first string field
AfterNul(p, v2) ==
  LET i == StrIdx(v2)
      o == Offsets(Def, v2)[i]
  IN [k \in 1..Len(p) |-> IF k = o + 1 THEN 97 ELSE IF k = o + 2 THEN 98 ELSE IF k = o + 3 THEN 0 ELSE IF k = o + 4 THEN 88 ELSE p[k]]

Payload ==
  LET full == Pattern(SizeExt(Def))
      base == Pattern(SizeBase(Def))
  IN CASE st.var = "canon"        -> Truncate(full)
       [] st.var = "untruncated"  -> full
       [] st.var = "padded"       -> Truncate(full) \o <<0, 0>>
       [] st.var = "after_nul"    -> AfterNul(Rep(66, SizeExt(Def)), TRUE)
       [] st.var = "ext_absent"   -> Truncate(Rep(9, SizeBase(Def)))
       [] st.var = "trailing_nz"  -> Rep(5, SizeExt(Def)) \o <<7, 9>>
       [] st.var = "trailing_z"   -> Rep(5, SizeExt(Def)) \o <<7, 0>>
       [] st.var = "v1"           -> base
       [] st.var = "v1_after_nul" -> AfterNul(Rep(66, SizeBase(Def)), FALSE)
       [] st.var = "signed"       -> full

Applicable ==
  CASE st.var \in {"after_nul"} -> StrIdx(TRUE) # 0
    [] st.var = "ext_absent" -> HasExt(Def) /\ SizeBase(Def) > 0
    [] st.var \in {"trailing_nz", "trailing_z"} -> SizeExt(Def) + 2 <= 255
    [] st.var = "padded" -> Len(Truncate(Pattern(SizeExt(Def)))) + 2 <= 255
    [] st.var = "v1" -> Def.id <= 255 /\ SizeBase(Def) > 0
    [] st.var = "v1_after_nul" -> Def.id <= 255 /\ StrIdx(FALSE) # 0
    [] OTHER -> TRUE

Key == [i \in 1..32 |-> (i * 31 + 5) % 256]

Vec ==
  LET v == IF st.var \in {"v1", "v1_after_nul"} THEN 1 ELSE 2
      sg == st.var = "signed"
      f0 == Mk(v, IF sg THEN 1 ELSE 0, 0, (D * 5) % 256, 1 + (D % 200), (D * 3) % 256, Def.id, Payload, 0,
               IF sg THEN 9 ELSE 0, IF sg THEN <<1, 2, 3, 4, 5, 6>> ELSE Z6, IF sg THEN Z6 ELSE <<>>)
      f1 == [f0 EXCEPT !.ck = Checksum(f0, CrcExtra(Def))]
      f == IF sg THEN [f1 EXCEPT !.sig = Sign(Key, f1)] ELSE f1
  IN [d |-> D, var |-> st.var, bytes |-> Marshal(f), key |-> IF sg THEN Key ELSE <<>>]

Emit == Applicable => PrintT("VEC " \o ToJson(Vec))
=============================================================================
