------------------------------ MODULE MC_Writer ------------------------------
(* Layer I vs Layer P for the per-link sequence counter (C09).                *)
(* IWriter: streamwriter.Writer.writeInner / frame.Writer.writeFrameAndFill   *)
(* as coded: fill the frame with the counter, validate (dialect lookup),      *)
(* encode, marshal (v1 refuses ids above 255), single transport write.        *)
(* IncrementAt says where the counter advances: "after_write" (the repaired   *)
(* code) or "before_validation" (the pinned commit, kept to show the gap TLC  *)
(* finds).  The monitor is PWriter's rule: the k-th emitted frame carries     *)
(* k mod M.  Counter modulo M = 4 so that wrap-around is explored.            *)
EXTENDS Integers, Sequences, TLC

CONSTANTS M, MaxOps, IncrementAt

Items == {"msg_ok", "raw_ok", "raw_outside_dialect", "id_above_255_on_v1", "transport_error"}

VARIABLES next,     \* implementation counter
          emitted,  \* monitor: number of frames that reached the wire
          lastSeq,  \* sequence number of the last emitted frame, -1 = none
          ops, ok

Init == next = 0 /\ emitted = 0 /\ lastSeq = -1 /\ ops = 0 /\ ok = TRUE

Write(item) ==
  LET seq == next                                  \* fill
      early == IncrementAt = "before_validation"
      refused == item \in {"raw_outside_dialect", "id_above_255_on_v1"}
      failed == item = "transport_error"
      emits == ~refused /\ ~failed
  IN /\ ops < MaxOps
     /\ ops' = ops + 1
     /\ next' = IF early \/ emits THEN (next + 1) % M ELSE next
     /\ emitted' = IF emits THEN emitted + 1 ELSE emitted
     /\ lastSeq' = IF emits THEN seq ELSE lastSeq
     /\ ok' = (emits => seq = emitted % M)

Next == \E it \in Items : Write(it)

Gapless == ok
CounterIsCount == next = emitted % M \/ IncrementAt = "before_validation"
=============================================================================
