SPECIFICATION Spec
CONSTANTS
  Senders = {s1, s2}
  Period = 3
  Horizon = 10
  Design = "shared_slot"
INVARIANTS FollowsTheRule NotRepeatedWithinPeriod TableIsClean
CHECK_DEADLOCK FALSE
