------------------------------- MODULE SrRule -------------------------------
(* The rule of C16 for automatic stream requests, as a function of the times  *)
(* at which ArduPilot heartbeats of ONE sender (channel, system, component)   *)
(* are seen: the first heartbeat triggers a burst of requests, a later one    *)
(* does so exactly when at least `period` has passed since the sender's last  *)
(* burst ("not repeated for that sender within 30 seconds").                  *)
(* Used by the PNode monitor on recorded times (ms) and by the                *)
(* implementation-shaped model ISr on abstract ticks.                         *)
EXTENDS Integers, Sequences, SequencesExt

\* times: non-decreasing sequence; result: the subsequence of times that trigger a burst
Due(times, period) ==
  FoldLeft(LAMBDA acc, t : IF (IF acc = <<>> THEN TRUE ELSE t - acc[Len(acc)] >= period) THEN Append(acc, t) ELSE acc, <<>>, times)

Streams == <<1, 2, 3, 6, 10, 11, 12>>         \* the seven standard data streams, in request order
=============================================================================
