----------------------------- MODULE Trace_INode -----------------------------
(* Fidelity: is the observable behaviour recorded from the real node one of   *)
(* the behaviours of the implementation-shaped model INode?                   *)
(*                                                                            *)
(* The recorded trace is projected (by the driver) onto the observable        *)
(* alphabet of the model - arrive, write, consumer, tmode, close, ev, wire -  *)
(* and TLC searches for an interleaving of INode actions that produces it:    *)
(* an action whose observable event matches the next trace line consumes it,  *)
(* every other action is a silent step.  The search runs depth first          *)
(* (StateDeque) and stops as soon as the whole trace is consumed: the         *)
(* "invariant" NotAccepted is violated exactly when the trace is accepted.    *)
(* If TLC exhausts the reachable states without consuming the trace, the      *)
(* code did something the model cannot do: MODEL-DRIFT (never a VIOLATION -   *)
(* verdicts come from the Layer-P monitors only).                             *)
EXTENDS INode, Json, IOUtils

Trace == ndJsonDeserialize(IOEnv.TRACE)

VARIABLE l

TK1 == ("e1" :> "custom")
TK2 == ("e1" :> "custom") @@ ("e2" :> "custom")

\* does the model's observable event o match the recorded line t
Match(o, t) ==
  /\ o.e = t.e
  /\ CASE o.e = "arrive"   -> o.ch[1] = t.ep /\ o.r = t.r
       [] o.e = "write"    -> o.w = t.w /\ o.kind = t.kind /\ (o.kind = "all" \/ (o.ch[1] = t.ep /\ o.ch[2] = t.inst))
       [] o.e = "consumer" -> o.run = t.run
       [] o.e = "tmode"    -> o.ch[1] = t.ep /\ o.mode = t.mode
       [] o.e = "close"    -> TRUE
       [] o.e = "ev"       -> o.type = t.type /\ o.ch[1] = t.ep /\ o.ch[2] = t.inst
       [] o.e = "wire"     -> o.ch[1] = t.ep /\ o.item[1] = t.w /\ o.item[2] = t.i
       [] OTHER -> FALSE

\* observable kinds that must be matched against the trace; wire events of heartbeats / stream requests and
\* events the driver projects away are silent
Visible(o) ==
  \/ o.e \in {"arrive", "write", "consumer", "tmode", "close", "ev"}
  \/ o.e = "wire" /\ o.item[1] \in Writers

TInit == Init /\ l = 1
TNext ==
  /\ Next
  /\ IF Visible(obs')
     THEN l <= Len(Trace) /\ Match(obs', Trace[l]) /\ l' = l + 1
     ELSE l' = l

NotAccepted == l <= Len(Trace)
TView == <<View, l>>
=============================================================================
