------------------------------ MODULE Trace_Node ------------------------------
(* Code -> spec conformance for runs of a real gomavlib.Node: the ndjson      *)
(* trace of one scenario (observable events only, global sequence numbers     *)
(* taken under one harness mutex) is walked line by line through the PNode    *)
(* monitor.  Transport writes (TW) are concatenated per wire and cut into     *)
(* whole frames by MavFrame!ParseAt - the property forbids interleaving of    *)
(* frames, it does not prescribe one transport write per frame - and each     *)
(* frame steps the monitor as an Out event.                                   *)
EXTENDS Integers, Sequences, SequencesExt, TLC, Json, IOUtils

Trace == ndJsonDeserialize(IOEnv.TRACE)
DefsFile == JsonDeserialize(IOEnv.DEFS)
IdxOf(id, pkg) == CHOOSE i \in 1..Len(DefsFile) : DefsFile[i].id = id /\ DefsFile[i].type = pkg

P == INSTANCE PNode WITH Defs <- DefsFile,
       HbDef <- IdxOf(0, "github.com/bluenviron/gomavlib/v3/pkg/dialects/minimal.MessageHeartbeat"),
       SrDef <- IdxOf(66, "github.com/bluenviron/gomavlib/v3/pkg/dialects/common.MessageRequestDataStream"),
       TagDef <- IdxOf(252, "github.com/bluenviron/gomavlib/v3/pkg/dialects/common.MessageNamedValueInt")

VARIABLES l, m, buf

Init == l = 1 /\ m = P!Init0 /\ buf = <<>>

\* cut as many whole frames as possible from the wire buffer; junk on an outgoing wire is a violation
Cut(b) ==
  LET step(acc, i) ==
        IF acc.stop \/ i # acc.pos + 1 THEN acc
        ELSE LET p == P!ParseAt(b, acc.pos)
             IN IF p.k = "frame" THEN [acc EXCEPT !.pos = acc.pos + p.n, !.frames = Append(acc.frames, p.f)]
                ELSE IF p.k = "more" THEN [acc EXCEPT !.stop = TRUE]
                ELSE [acc EXCEPT !.stop = TRUE, !.junk = TRUE]
  IN FoldLeft(step, [pos |-> 0, frames |-> <<>>, stop |-> FALSE, junk |-> FALSE], [i \in 1..Len(b) |-> i])

OnTW(r) ==
  LET k == <<r.ep, r.peer>>
      b == P!Get(buf, k, <<>>) \o r.bytes
      c == Cut(b)
      m1 == FoldLeft(LAMBDA mm, f : P!Step(mm, [e |-> "Out", ep |-> r.ep, peer |-> r.peer, f |-> f, seq |-> r.seq, t |-> r.t]),
                     m, c.frames)
      m2 == IF c.junk THEN P!Flag(m1, "C11.only_whole_frames_on_the_wire", r) ELSE m1
  IN /\ m' = m2
     /\ buf' = P!Put(buf, k, SubSeq(b, c.pos + 1, Len(b)))

OnFinal(r) ==
  LET leftover == {k \in DOMAIN buf : Len(buf[k]) > 0}
      m1 == IF leftover = {} THEN m ELSE P!Flag(m, "C11.only_whole_frames_on_the_wire", r)
  IN m' = P!Step(m1, r) /\ UNCHANGED buf

\* several scenarios are concatenated in one trace: a Scenario record reports the previous one and resets
Sid(mm) == IF "sid" \in DOMAIN mm.conf THEN mm.conf.sid ELSE -1
ReportOne(mm) == IF mm.bad = {} THEN TRUE ELSE PrintT(<<"REJECT", l, Sid(mm), "NODE", mm.bad>>)

Next ==
  /\ l <= Len(Trace)
  /\ LET r == Trace[l] IN
     CASE r.e = "TW" -> OnTW(r)
       [] r.e = "Final" -> OnFinal(r)
       [] r.e = "Scenario" -> ReportOne(m) /\ m' = P!Step(P!Init0, r) /\ buf' = <<>>
       [] OTHER -> m' = P!Step(m, r) /\ UNCHANGED buf
  /\ l' = l + 1

View == l

Report == (l = Len(Trace) + 1) => (ReportOne(m) /\ PrintT(<<"WALKED", Len(Trace)>>))
=============================================================================
