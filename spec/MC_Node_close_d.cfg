CONSTANTS
  e1 = e1
  e2 = e2
  w1 = w1
  w2 = w2
  Eps = {e1, e2}
  Kind <- KindCustomClient
  MaxCh = 1
  QCap = 1
  Writers = {}
  NWrites = 0
  WKinds = {"all"}
  MaxIn = 0
  InKinds = {"ok"}
  HbTicks = 0
  SrN = 0
  MaxDialFail = 1
  TModes = {"ok"}
  EnvBudget = 0
  StartOpen = FALSE
  AllowClose = TRUE
  Design = "repaired"
SPECIFICATION Spec
PROPERTY CloseTerminates
VIEW View
CHECK_DEADLOCK FALSE
