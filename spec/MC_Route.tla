------------------------------ MODULE MC_Route ------------------------------
(* Layer I vs Layer P for routing with a dialect (C08).                       *)
(* IRoute: frame.Reader.Read as coded - accept iff the wire checksum matches, *)
(* decode, then normalise (variant "fixed": recompute the checksum whenever   *)
(* the canonical re-encoding differs from the received payload; variant       *)
(* "old", the pinned commit: only when the v2 payload ends in a zero byte,    *)
(* recompute over the zero-stripped payload) - followed by frame.Writer.Write *)
(* which re-encodes the decoded message canonically and keeps the frame's     *)
(* checksum field.  Property: the forwarded frame carries the checksum of     *)
(* the payload actually sent and decodes to the same message; checked for     *)
(* every payload up to length 5 over {0,1,2}, both versions, two hops.        *)
EXTENDS Integers, Sequences, TLC, MavFrame, MavMessage

CONSTANT Variant

VARIABLE st

F(typ, size, n, isstr, gosize, ext) ==
  [name |-> <<120>>, typ |-> typ, size |-> size, n |-> n, crcn |-> n, isstr |-> isstr, gosize |-> gosize, ext |-> ext]
Def == [name |-> <<84>>, id |-> 7,
        fields |-> << F(Types.uint8.mav, 1, 0, FALSE, 1, FALSE),
                      F(Types.string.mav, 1, 2, TRUE, 0, FALSE),
                      F(Types.uint8.mav, 1, 0, FALSE, 1, TRUE) >>]
Extra == CrcExtra(Def)

Payloads == UNION {[1..n -> {0, 1, 2}] : n \in 0..5}

Init == st \in {[p |-> p, v |-> v] : p \in Payloads, v \in {1, 2}}
Next == st' \in {}

Frame(v, p, ck) == Mk(v, 0, 0, 3, 4, 5, Def.id, p, ck, 0, Z6, <<>>)

\* one hop: [acc |-> accepted, out |-> forwarded frame]
Hop(f) ==
  LET v2 == f.v = 2
      d == Decode(Def, f.payload, v2)
      okck == f.ck = Checksum(f, Extra)
  IN IF ~okck \/ ~d.ok THEN [acc |-> FALSE, out |-> f]
     ELSE LET canon == Encode(Def, d.vals, v2)
              \* reader normalisation
              rd == IF Variant = "fixed"
                    THEN (IF canon # f.payload THEN [f EXCEPT !.payload = canon, !.ck = Checksum([f EXCEPT !.payload = canon], Extra)] ELSE f)
                    ELSE (IF v2 /\ Len(f.payload) > 1 /\ f.payload[Len(f.payload)] = 0
                          THEN LET t == Truncate(f.payload) IN [f EXCEPT !.payload = t, !.ck = Checksum([f EXCEPT !.payload = t], Extra)]
                          ELSE f)
              \* writer: re-encodes the decoded message, keeps the checksum field
              out == [rd EXCEPT !.payload = canon]
          IN [acc |-> TRUE, out |-> out]

Input == LET f0 == Frame(st.v, st.p, 0) IN [f0 EXCEPT !.ck = Checksum(f0, Extra)]
H1 == Hop(Input)
H2 == Hop(H1.out)

Accepted == Decode(Def, st.p, st.v = 2).ok
ForwardedValid == Accepted => (H1.acc /\ H1.out.ck = Checksum(H1.out, Extra))
SameMessage == Accepted => Decode(Def, H1.out.payload, st.v = 2) = Decode(Def, st.p, st.v = 2)
SecondHopAccepts == Accepted => (H2.acc /\ H2.out = H1.out)
=============================================================================
