------------------------------ MODULE WindowInt ------------------------------
(* Unbounded companion of MC_Window (C07): the replay-window register of      *)
(* frame.Reader in 64-bit unsigned arithmetic against the property's rule,    *)
(* over ALL 48-bit timestamps (integers, checked symbolically by Apalache as  *)
(* an inductive invariant: IndInit => IndInv, IndInv /\ Next => IndInv').     *)
EXTENDS Integers

CONSTANT
  \* @type: Str;
  Variant      \* "fixed" | "old"

VARIABLES
  \* @type: Int;
  cur,         \* implementation register (uint64, 0 = none)
  \* @type: Int;
  newest,      \* monitor state, -1 = none
  \* @type: Bool;
  agree

Win == 1000000
Max48 == 281474976710655
Two64 == 18446744073709551616

ImplRefuse(ts) ==
  /\ cur > 0
  /\ IF Variant = "fixed" THEN ts + Win < cur
     ELSE ts < ((cur - Win) + Two64) % Two64      \* unsigned wrap-around subtraction of the pinned commit
TooOld(ts) == newest >= 0 /\ ts + Win < newest

Refines == (newest = -1 /\ cur = 0) \/ (newest >= 0 /\ cur = newest)
TypeOK == cur \in 0..Max48 /\ newest \in (-1)..Max48 /\ agree \in BOOLEAN

IndInv == TypeOK /\ Refines /\ agree
IndInit == cur \in 0..Max48 /\ newest \in (-1)..Max48 /\ agree = TRUE /\ Refines

Init == cur = 0 /\ newest = -1 /\ agree = TRUE
Next == \E ts \in 0..Max48 :
  LET ri == ImplRefuse(ts)
      rm == TooOld(ts)
  IN /\ agree' = (ri = rm)
     /\ cur' = IF ri THEN cur ELSE (IF ts > cur THEN ts ELSE cur)
     /\ newest' = IF rm THEN newest ELSE (IF ts > newest THEN ts ELSE newest)
=============================================================================
