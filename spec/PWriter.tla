------------------------------- MODULE PWriter -------------------------------
(* Layer P - contract monitor of a message writer on one link (C09 originated *)
(* frames, C06 writer side, C07 outgoing timestamps).                         *)
(*                                                                            *)
(* WINIT  [cfg, init_ok]        one initialisation attempt                    *)
(* WLINK  [cfg, dl, writes]     all writes on one link, in order; per write   *)
(*        [kind "msg"|"raw", d, vals | id, payload, ok, out, t0, t1, panic]   *)
(*        out = the bytes handed to the transport during that call            *)
(* cfg = [v, sys, comp, key, link]: as configured (comp 0 = unset, link -1 =  *)
(* any constant value, key <<>> = none).                                      *)
EXTENDS Integers, Sequences, SequencesExt, FiniteSets, MavFrame, MavMessage

CONSTANT Defs

Failed_(clauses) == {clauses[i][1] : i \in {j \in 1..Len(clauses) : ~clauses[j][2]}}

Lookup(dl, id) ==
  LET hits == {k \in 1..Len(dl) : Defs[dl[k]].id = id}
  IN IF hits = {} THEN 0 ELSE dl[CHOOSE k \in hits : TRUE]

InitMustFail(cfg) == cfg.v \notin {1, 2} \/ cfg.sys = 0 \/ (Len(cfg.key) > 0 /\ cfg.v = 1)

Check_WINIT(r) ==
  Failed_(<< <<"no_panic", ~r.panic>>,
             <<"bad_config_refused", InitMustFail(r.cfg) => ~r.init_ok>>,
             <<"good_config_accepted", ~InitMustFail(r.cfg) => r.init_ok>> >>)

WId(w) == IF w.kind = "msg" THEN Defs[w.d].id ELSE w.id

\* the link can encode this item
Encodable(cfg, dl, w) ==
  /\ Lookup(dl, WId(w)) # 0
  /\ w.kind = "msg" => Lookup(dl, WId(w)) = w.d
  /\ cfg.v = 1 => WId(w) <= 255

WStep(cfg, dl, st, w) ==
  LET v2 == cfg.v = 2
      keyed == Len(cfg.key) > 0
      enc == Encodable(cfg, dl, w)
      p == Parse(w.out)
      isF == p.k = "frame"
      d == Lookup(dl, WId(w))
      def == FromGo(Defs[d])
      c == IF ~w.ok
           THEN << <<"no_panic", ~w.panic>>,
                   \* an item the link refuses puts nothing on the link; when the transport fails a write after taking part of
                   \* it (w.took bytes), that part is all there is: the rest is not pushed out behind the caller's back
                   <<"refused_write_emits_nothing", Len(w.out) = (IF w.inj /\ w.took > 0 THEN w.took ELSE 0)>>,
                   <<"valid_write_accepted", ~enc \/ w.inj>> >>
           ELSE << <<"no_panic", ~w.panic>>,
                   <<"v1_id_above_255_refused", ~(cfg.v = 1 /\ WId(w) > 255)>>,
                   <<"transport_error_reported", ~w.inj>>,
                   <<"one_whole_frame", isF /\ p.n = Len(w.out)>>,
                   <<"version", isF => p.f.v = cfg.v>>,
                   <<"identity", isF => (p.f.sys = cfg.sys /\ p.f.comp = (IF cfg.comp = 0 THEN 1 ELSE cfg.comp))>>,
                   <<"message_id", isF => p.f.id = WId(w)>>,
                   <<"compat_flags_zero", (isF /\ v2) => p.f.cflag = 0>>,
                   <<"signed_iff_key", (isF /\ v2) => p.f.iflag = (IF keyed THEN 1 ELSE 0)>>,
                   <<"sequence_gapless", isF => p.f.seq = st.n % 256>>,
                   <<"payload", (isF /\ enc) => p.f.payload = (IF w.kind = "msg" THEN Encode(def, w.vals, v2) ELSE w.payload)>>,
                   <<"v1_omits_extensions", (isF /\ enc /\ ~v2 /\ w.kind = "msg") => Len(p.f.payload) = SizeBase(def)>>,
                   <<"checksum", (isF /\ d # 0) => p.f.ck = Checksum(p.f, CrcExtra(def))>>,
                   <<"link_id", (isF /\ keyed) => (IF cfg.link >= 0 THEN p.f.link = cfg.link ELSE st.link \in {-1, p.f.link})>>,
                   <<"signature", (isF /\ keyed /\ IsSigned(p.f)) => p.f.sig = Sign(cfg.key, p.f)>>,
                   <<"timestamp_monotone", (isF /\ keyed) => ~Lt(p.f.ts, st.ts)>>,
                   <<"timestamp_clock", (isF /\ keyed) => (Le(w.t0, p.f.ts) /\ Le(p.f.ts, w.t1))>> >>
  IN [n |-> IF w.ok /\ isF THEN p.f.seq + 1 ELSE st.n,      \* resynchronise on the observed number
      ts |-> IF w.ok /\ isF /\ keyed THEN p.f.ts ELSE st.ts,
      link |-> IF w.ok /\ isF /\ keyed THEN p.f.link ELSE st.link,
      bad |-> st.bad \cup Failed_(c),
      firstbad |-> IF st.firstbad = 0 /\ Failed_(c) # {} THEN st.i ELSE st.firstbad,
      i |-> st.i + 1]

Check_WLINK(r) ==
  FoldLeft(LAMBDA st, w : WStep(r.cfg, r.dl, st, w),
           [n |-> 0, ts |-> <<0>>, link |-> -1, bad |-> {}, firstbad |-> 0, i |-> 1], r.writes)
=============================================================================
