------------------------------- MODULE MC_Enum -------------------------------
(* Spec-side sanity of the text rules of EnumText on a small universe: the    *)
(* specified renderer/parser pair (names for defined values, decimal          *)
(* otherwise; flag names joined by " | ") round-trips every value of a small  *)
(* ordinary enum and every union of flags of a small bitmask enum, and Split  *)
(* inverts joining.  Guards the monitor against being unsatisfiable.          *)
EXTENDS Integers, Sequences, SequencesExt, FiniteSets, TLC, EnumText

VARIABLE v

Nm(k) == <<70, 76, 65, 71, 95, 48 + k>>     \* "FLAG_k"
Flags == [k \in 1..4 |-> [name |-> Nm(k), value |-> Fit(W(IF k = 4 THEN 32768 ELSE 2 ^ (k - 1)), 8)]]
Ord == [k \in 1..3 |-> [name |-> Nm(k), value |-> Fit(W(k * 5), 8)]]

Init == v \in 0..40
Next == v' \in {}

\* reference renderer / parser of the specification
RenderOrd(x) == LET ns == NamesOfValue(Ord, Fit(W(x), 8)) IN IF ns # {} THEN CHOOSE n \in ns : TRUE ELSE ToDecimal(W(x))
ParseOrd(cs) == IF cs \in Names(Ord) THEN (CHOOSE i \in 1..3 : Ord[i].name = cs) * 5 ELSE Val(Fit(FromDecimal(cs), 3))

Join(parts) == FoldLeft(LAMBDA acc, p : IF acc = <<>> THEN p ELSE acc \o Sep \o p, <<>>, parts)
Subset(x) == {k \in 1..4 : (x \div (2 ^ (k - 1))) % 2 = 1}          \* v encodes a subset of the 4 flags
RenderMask(x) == Join([k \in 1..Cardinality(Subset(x)) |-> Nm(CHOOSE j \in Subset(x) : Cardinality({i \in Subset(x) : i < j}) = k - 1)])

OrdRoundTrip == ParseOrd(RenderOrd(v)) = v
SplitInvertsJoin == v \in 1..15 => ToSet(Split(RenderMask(v))) = {Nm(k) : k \in Subset(v)} /\ Len(Split(RenderMask(v))) = Cardinality(Subset(v))
NumeralClass == IsNumeral(ToDecimal(W(v))) /\ ~IsNumeral(Nm(1)) /\ ~IsNumeral(<<>>) /\ IsNumeral(<<45, 49>>)
\* a probe that renders the names of the contained flags satisfies the monitor; one that drops a flag does not
MonitorAccepts == v \in 1..15 =>
  LET of == SetToSeq(Subset(v))
      val == OrAll(Flags, of)
      good == [v |-> val, text |-> RenderMask(v), merr |-> FALSE, back |-> val, uerr |-> FALSE, panic |-> FALSE,
               str |-> RenderMask(v), of |-> of, back2 |-> val, uerr2 |-> FALSE, again_differs |-> FALSE]
      lossy == [good EXCEPT !.text = <<>>, !.str = <<>>]
      \* a parser that leaves a used variable untouched is refused
      stale == [good EXCEPT !.back2 = Fit(W(255), 8)]
  IN ProbeBitmask(Flags, good) = {} /\ ProbeBitmask(Flags, lossy) # {}
     /\ ProbeBitmask(Flags, stale) = {"round_trip_into_a_used_variable"}
=============================================================================
