------------------------------- MODULE XmlDef -------------------------------
(* Abstract syntax of a MAVLink dialect XML document set and the meaning the  *)
(* MAVLink rules assign to it (C18).                                          *)
(* doc = [main (file index), files <<[version (chars, <<>> = absent),         *)
(*        includes <<file indices>>, enums <<[name, bitmask, entries          *)
(*        <<[name, text]>>]>>, messages <<[id, name, fields <<[name, type     *)
(*        (string: MAVLink primitive), arr, enum (chars, <<>> = none),        *)
(*        ext]>>]>>]>>]                                                       *)
(* Names are character sequences; enum entry values are the literal text of   *)
(* the XML attribute (decimal, 0x hex, 0b binary, a**b).                      *)
EXTENDS Integers, Sequences, SequencesExt, FiniteSets, MavMessage

\* ---- enum value literals
Digit(c) == c - 48
HexVal(c) == IF c \in 48..57 THEN c - 48 ELSE IF c \in 97..102 THEN c - 87 ELSE c - 55

StartsWith(cs, p) == Len(cs) >= Len(p) /\ SubSeq(cs, 1, Len(p)) = p
IndexOfPow(cs) == LET S == {i \in 1..(Len(cs) - 1) : cs[i] = 42 /\ cs[i + 1] = 42} IN IF S = {} THEN 0 ELSE CHOOSE i \in S : \A j \in S : i <= j

FromBase(cs, base) == Fit(FoldLeft(LAMBDA acc, c : Add(MulSmall(acc, base), <<HexVal(c)>>), <<0>>, cs), 8)

RECURSIVE PowW(_, _)
PowW(b, e) == IF e = 0 THEN <<1>> ELSE MulSmall(PowW(b, e - 1), b)

\* value of a literal as 8 bytes little-endian
Literal(cs) ==
  IF StartsWith(cs, <<48, 98>>) THEN FromBase(SubSeq(cs, 3, Len(cs)), 2)
  ELSE IF StartsWith(cs, <<48, 120>>) THEN FromBase(SubSeq(cs, 3, Len(cs)), 16)
  ELSE IF IndexOfPow(cs) > 0
       THEN LET k == IndexOfPow(cs)
                b == Val(Fit(FromDecimal(SubSeq(cs, 1, k - 1)), 2))
                e == Val(Fit(FromDecimal(SubSeq(cs, k + 2, Len(cs))), 2))
            IN Fit(PowW(b, e), 8)
       ELSE Fit(FromDecimal(cs), 8)

\* ---- include graph: post-order, every file once (includes first)
RECURSIVE Post(_, _, _)
Post(doc, f, seen) ==
  IF f \in seen THEN [seq |-> <<>>, seen |-> seen]
  ELSE LET r == FoldLeft(LAMBDA acc, g :
                    LET s == Post(doc, g, acc.seen) IN [seq |-> acc.seq \o s.seq, seen |-> s.seen],
                  [seq |-> <<>>, seen |-> seen \cup {f}], doc.files[f].includes)
       IN [seq |-> Append(r.seq, f), seen |-> r.seen]

Order(doc) == Post(doc, doc.main, {}).seq

\* version: the last definition in processing order that states one; 0 when none does
VersionText(doc) ==
  FoldLeft(LAMBDA acc, f : IF Len(doc.files[f].version) > 0 THEN doc.files[f].version ELSE acc, <<>>, Order(doc))
Version(doc) == IF IsDecimal(VersionText(doc)) THEN Val(Fit(FromDecimal(VersionText(doc)), 3)) ELSE 0

\* ---- messages
MavTypes ==
  [double |-> "float64", uint64_t |-> "uint64", int64_t |-> "int64", float |-> "float32", uint32_t |-> "uint32",
   int32_t |-> "int32", uint16_t |-> "uint16", int16_t |-> "int16", uint8_t |-> "uint8", int8_t |-> "int8",
   char |-> "string", uint8_t_mavlink_version |-> "uint8"]

\* the MAVLink meaning of one XML field, in the normalised form of MavMessage!NField
XField(xf) ==
  LET g == MavTypes[xf.type]
      isstr == g = "string"
      isenum == Len(xf.enum) > 0
  IN [name   |-> xf.name,
      typ    |-> Types[g].mav,
      size   |-> Types[g].size,
      n      |-> IF isstr /\ xf.arr = 0 THEN 1 ELSE xf.arr,
      crcn   |-> xf.arr,
      isstr  |-> isstr,
      gosize |-> IF isstr THEN 0 ELSE IF isenum THEN 8 ELSE Types[g].size,
      ext    |-> xf.ext]

XMessage(xm) == [name |-> xm.name, id |-> xm.id, fields |-> [i \in 1..Len(xm.fields) |-> XField(xm.fields[i])]]

Messages(doc) == FlattenSeq([k \in 1..Len(Order(doc)) |->
                    [i \in 1..Len(doc.files[Order(doc)[k]].messages) |-> XMessage(doc.files[Order(doc)[k]].messages[i])]])

\* ---- enums: merged by name over the processing order; set of <<name, value>> constants
AllEnums(doc) == FlattenSeq([k \in 1..Len(Order(doc)) |-> doc.files[Order(doc)[k]].enums])
Constants(doc) == UNION {{<<AllEnums(doc)[e].entries[i].name, Literal(AllEnums(doc)[e].entries[i].text)>> :
                              i \in 1..Len(AllEnums(doc)[e].entries)} : e \in 1..Len(AllEnums(doc))}

\* MAVLink validity (what mavgen's duplicate check refuses): within one enum (all its parts merged by name) no two entries
\* denote the same value and no two entries have the same name. The grammar of the harness is meant to produce valid
\* documents only; the monitor says so when it does not (harness sanity, never a verdict about the generator).
EnumValuesUnique(doc) ==
  LET E == AllEnums(doc)
      pairs == {p \in (1..Len(E)) \X (1..8) : p[2] <= Len(E[p[1]].entries)}
  IN \A p, q \in pairs :
       (p # q /\ E[p[1]].name = E[q[1]].name) =>
          /\ Literal(E[p[1]].entries[p[2]].text) # Literal(E[q[1]].entries[q[2]].text)
          /\ E[p[1]].entries[p[2]].name # E[q[1]].entries[q[2]].name

\* can the generator's output format express the document (every valid document of the grammar can)
Expressible(doc) ==
  \A m \in ToSet(Messages(doc)) : SizeExt(m) <= 255 /\ \A i \in 1..Len(m.fields) : m.fields[i].n <= 255
=============================================================================
