-------------------------------- MODULE X25 ---------------------------------
(* CRC-16/MCRF4XX ("X.25" in MAVLink): width 16, polynomial 0x1021 reflected *)
(* (0x8408), initial value 0xFFFF, input and output reflected, no final xor. *)
(* Source of truth: the CRC catalogue parameters, NOT the Go code.           *)
(*                                                                           *)
(*   ByteStep  - the bit-serial definition (8 shift/conditional-xor rounds)  *)
(*   Table     - the 256-entry table derived from ByteStep                   *)
(*   TableStep - table driven step, used for speed; MC_X25 checks            *)
(*               TableStep = ByteStep on all 2^24 (register, byte) pairs     *)
EXTENDS Integers, Sequences, SequencesExt, Bitwise

Poly == 33800      \* 0x8408
Init == 65535      \* 0xFFFF

BitRound(c) == IF c % 2 = 1 THEN (c \div 2) ^^ Poly ELSE c \div 2

Rounds8(c) == BitRound(BitRound(BitRound(BitRound(BitRound(BitRound(BitRound(BitRound(c))))))))

\* bit-serial step: xor the byte into the low half, then 8 rounds
ByteStep(crc, b) == Rounds8(crc ^^ b)

Table == [i \in 0..255 |-> Rounds8(i)]

TableStep(crc, b) == (crc \div 256) ^^ Table[(crc ^^ b) % 256]

\* register after feeding bytes from a given register value
Feed(crc, bytes) == FoldLeft(TableStep, crc, bytes)
FeedSerial(crc, bytes) == FoldLeft(ByteStep, crc, bytes)

Crc(bytes) == Feed(Init, bytes)

\* the two checksum bytes as they appear on the wire (little-endian)
CrcLE(bytes) == LET c == Crc(bytes) IN <<c % 256, c \div 256>>

\* CRC catalogue check value: CRC-16/MCRF4XX("123456789") = 0x6F91
ASSUME Crc(<<49,50,51,52,53,54,55,56,57>>) = 28561
ASSUME FeedSerial(Init, <<49,50,51,52,53,54,55,56,57>>) = 28561
=============================================================================
