CONSTANTS
  Eps = {"e1", "e2"}
  Kind <- GK2
  MaxCh = 2
  QCap = 2
  Writers = {"w1", "w2"}
  NWrites = 2
  WKinds = {"all", "to", "except"}
  MaxIn = 2
  InKinds = {"ok", "fatal"}
  HbTicks = 1
  SrN = 0
  MaxDialFail = 0
  TModes = {"ok", "block"}
  EnvBudget = 2
  StartOpen = FALSE
  AllowClose = TRUE
  Design = "repaired"
INIT GInit
NEXT GNext
INVARIANT Emit
CHECK_DEADLOCK FALSE
