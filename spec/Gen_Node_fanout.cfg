CONSTANTS
  Eps = {"e1", "e2"}
  Kind <- GK2
  MaxCh = 1
  QCap = 3
  Writers = {"w1", "w2"}
  NWrites = 3
  WKinds = {"all", "to", "except"}
  MaxIn = 1
  InKinds = {"ok"}
  HbTicks = 0
  SrN = 0
  MaxDialFail = 0
  TModes = {"ok", "fail"}
  EnvBudget = 1
  StartOpen = TRUE
  AllowClose = FALSE
  Design = "repaired"
INIT GInit
NEXT GNext
INVARIANT Emit
CHECK_DEADLOCK FALSE
