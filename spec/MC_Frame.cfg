CONSTANT MaxPayload = 2
INIT Init
NEXT Next
CHECK_DEADLOCK FALSE
INVARIANT WellFormedOK
INVARIANT RoundTrip
INVARIANT LengthOK
INVARIANT PrefixFree
INVARIANT SelfDelimiting
INVARIANT Emit
