------------------------------- MODULE PRoute -------------------------------
(* Layer P - routing transparency (C08).                                      *)
(* ROUTE [dl, x0, chain]: a frame x0 read by a reader (dialect dl or none)    *)
(* and, when accepted, written unchanged by a frame writer; the output is     *)
(* the input of the next hop.  chain[i] = [accepted, out].                    *)
(* FIX [dl, key, x0, d, vals, fix_ok, out, signed_in]: a received frame whose *)
(* message was edited to `vals`, passed to Node.FixFrame and written.         *)
EXTENDS Integers, Sequences, SequencesExt, FiniteSets, MavFrame, MavMessage

CONSTANT Defs

Failed_(clauses) == {clauses[i][1] : i \in {j \in 1..Len(clauses) : ~clauses[j][2]}}

Lookup(dl, id) ==
  LET hits == {k \in 1..Len(dl) : Defs[dl[k]].id = id}
  IN IF hits = {} THEN 0 ELSE dl[CHOOSE k \in hits : TRUE]

\* is x a whole frame a dialect reader must accept
Acceptable(dl, x) ==
  LET p == Parse(x) IN
  /\ p.k = "frame" /\ p.n = Len(x)
  /\ LET d == Lookup(dl, p.f.id) IN
     d = 0 \/ (/\ p.f.ck = Checksum(p.f, CrcExtra(FromGo(Defs[d])))
               /\ Decode(FromGo(Defs[d]), p.f.payload, p.f.v = 2).ok)

HopClauses(dl, x, hop, i) ==
  LET p == Parse(x)
      f == p.f
      q == Parse(hop.out)
      g == q.f
      d == Lookup(dl, f.id)
      def == FromGo(Defs[d])
      pre == "hop" \o ToString(i) \o "_"
  IN IF ~Acceptable(dl, x) THEN <<>>      \* no obligation for input a reader may refuse
     ELSE << <<"accepted_at_hop", hop.accepted>>,
             <<"no_panic", ~hop.panic>>,
             <<"forwarded_is_one_frame", hop.accepted => (q.k = "frame" /\ q.n = Len(hop.out))>>,
             <<"header_preserved", (hop.accepted /\ q.k = "frame") => HeaderEq(f, g)>>,
             <<"signature_block_preserved", (hop.accepted /\ q.k = "frame" /\ IsSigned(f)) =>
                   (g.link = f.link /\ g.ts = f.ts /\ g.sig = f.sig)>>,
             <<"identical_without_dialect", (hop.accepted /\ d = 0) => hop.out = x>>,
             <<"forwarded_checksum_valid", (hop.accepted /\ d # 0 /\ q.k = "frame") => g.ck = Checksum(g, CrcExtra(def))>>,
             <<"same_message", (hop.accepted /\ d # 0 /\ q.k = "frame") =>
                   Decode(def, g.payload, g.v = 2) = Decode(def, f.payload, f.v = 2)>> >>

Check_ROUTE(r) ==
  LET n == Len(r.chain)
      inputs == [i \in 1..n |-> IF i = 1 THEN r.x0 ELSE r.chain[i - 1].out]
      \* hop i is judged only if every earlier hop accepted and forwarded
      live(i) == \A j \in 1..(i - 1) : r.chain[j].accepted
  IN UNION {Failed_(HopClauses(r.dl, inputs[i], r.chain[i], i)) : i \in {j \in 1..n : live(j)}}
       \cup Failed_(<< <<"H_first_input_acceptable", Acceptable(r.dl, r.x0)>> >>)

\* edited message + FixFrame
Check_FIX(r) ==
  LET p == Parse(r.x0)
      q == Parse(r.out)
      g == q.f
      def == FromGo(Defs[r.d])
      keyed == Len(r.key) > 0
      \* "twice_seq": the application re-stamped the sequence number before a second FixFrame
      hdr == IF "seq2" \in DOMAIN r THEN [p.f EXCEPT !.seq = r.seq2] ELSE p.f
  IN Failed_(<< <<"H_input", Acceptable(r.dl, r.x0) /\ Lookup(r.dl, p.f.id) = r.d>>,
                <<"no_panic", ~r.panic>>,
                <<"fix_accepted", r.fix_ok>>,
                <<"one_frame", q.k = "frame" /\ q.n = Len(r.out)>>,
                <<"header_preserved", q.k = "frame" => HeaderEq(hdr, g)>>,
                <<"checksum_valid_for_edited_message", q.k = "frame" => g.ck = Checksum(g, CrcExtra(def))>>,
                <<"edited_message_decodes", q.k = "frame" =>
                      (LET dd == Decode(def, g.payload, g.v = 2) IN dd.ok /\ dd.vals = Canon(def, r.vals, g.v = 2))>>,
                <<"signature_valid_under_out_key", (q.k = "frame" /\ keyed /\ IsSigned(p.f)) =>
                      (IsSigned(g) /\ g.sig = Sign(r.key, g))>>,
                <<"accepted_at_next_hop", r.next_accepted>> >>)
=============================================================================
