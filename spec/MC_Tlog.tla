------------------------------- MODULE MC_Tlog -------------------------------
(* Layer I vs Layer P for telemetry logs (C20), mini-scale.                   *)
(* ITlog writer as coded: variant "old" (pinned commit) hands the timestamp   *)
(* to the file, then encodes the frame and hands it over (two transport       *)
(* writes, the second never happens for an unencodable frame); variant        *)
(* "fixed" assembles timestamp + frame and makes one transport write.         *)
(* A transport write may fail (at most once, then the run ends) after a       *)
(* prefix of the data went out.  Entry i is the token string                  *)
(* <<T,i,i>> <<F,i,E>> (timestamp of 3 tokens, frame of 3 tokens).            *)
(* Properties: after every accepted write the file grew by exactly one whole  *)
(* entry; a refused (unencodable) entry leaves the file unchanged; a          *)
(* transport error is reported; for EVERY cut point of every reachable file   *)
(* without transport failure the reader returns exactly the complete entries  *)
(* before the cut.                                                            *)
EXTENDS Integers, Sequences, SequencesExt, TLC

CONSTANTS Variant, MaxEntries

VARIABLES file, n, good, failed, reported

Ts(i) == <<"T", i, i>>
Fr(i) == <<"F", i, "E">>
Entry(i) == Ts(i) \o Fr(i)

Init == file = <<>> /\ n = 0 /\ good = <<>> /\ failed = FALSE /\ reported = TRUE

WriteEntry(encodable) ==
  /\ n < MaxEntries /\ ~failed
  /\ n' = n + 1
  /\ LET i == n + 1 IN
     IF Variant = "fixed"
     THEN IF ~encodable
          THEN /\ file' = file /\ good' = good /\ UNCHANGED <<failed, reported>>
          ELSE \/ /\ file' = file \o Entry(i) /\ good' = Append(good, i) /\ UNCHANGED <<failed, reported>>
               \/ \E k \in 0..5 : /\ file' = file \o SubSeq(Entry(i), 1, k) /\ failed' = TRUE /\ reported' = TRUE
                                  /\ good' = good
     ELSE \* old: timestamp first
          \/ \E k \in 0..2 : /\ file' = file \o SubSeq(Ts(i), 1, k) /\ failed' = TRUE /\ reported' = TRUE /\ good' = good
          \/ IF ~encodable
             THEN /\ file' = file \o Ts(i) /\ good' = good /\ UNCHANGED <<failed, reported>>
             ELSE \/ /\ file' = file \o Ts(i) \o Fr(i) /\ good' = Append(good, i) /\ UNCHANGED <<failed, reported>>
                  \/ \E k \in 0..2 : /\ file' = file \o Ts(i) \o SubSeq(Fr(i), 1, k) /\ failed' = TRUE /\ reported' = TRUE
                                     /\ good' = good

Next == \E e \in BOOLEAN : WriteEntry(e)

\* abstract tlog.Reader: 3 timestamp tokens then a frame F,i,E; anything else or too short = error
RECURSIVE ReadAll(_)
ReadAll(S) ==
  IF Len(S) < 6 THEN <<>>
  ELSE IF S[1] = "T" /\ S[4] = "F" /\ S[6] = "E" /\ S[2] = S[5]
       THEN <<S[2]>> \o ReadAll(SubSeq(S, 7, Len(S)))
       ELSE <<>>

\* (1) without transport failure the file is exactly the accepted entries
FileIsEntries == ~failed => file = FlattenSeq([k \in 1..Len(good) |-> Entry(good[k])])
\* (2) every cut of such a file reads back a prefix of the accepted entries: the complete ones
CutsReadBack == ~failed =>
  \A c \in 0..Len(file) : ReadAll(SubSeq(file, 1, c)) = SubSeq(good, 1, c \div 6)
\* (3) after a transport failure the file is the accepted entries plus a strict prefix of one entry
FailureLeavesPrefix == failed =>
  \E k \in 0..5 : Len(file) = 6 * Len(good) + k
Reported == reported
=============================================================================
