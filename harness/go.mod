module verif/harness

go 1.21.0

require github.com/bluenviron/gomavlib/v3 v3.0.0

replace github.com/bluenviron/gomavlib/v3 => /repo
