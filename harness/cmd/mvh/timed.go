package main

import (
	"io"
	"math/rand"
	"net"
	"time"

	"github.com/bluenviron/gomavlib/v3/pkg/timednetconn"
)

func init() { cmds["timed"] = cmdTimed }

// recConn records every call of the wrapped connection.
type recConn struct {
	t0  time.Time
	ops []M
}

func (c *recConn) now() int { return int(time.Since(c.t0) / time.Millisecond) }

func (c *recConn) Read(b []byte) (int, error) {
	c.ops = append(c.ops, M{"op": "Read", "t": c.now()})
	return 0, io.EOF
}

func (c *recConn) Write(b []byte) (int, error) {
	c.ops = append(c.ops, M{"op": "Write", "t": c.now()})
	return len(b), nil
}
func (c *recConn) Close() error         { c.ops = append(c.ops, M{"op": "Close", "t": c.now()}); return nil }
func (c *recConn) LocalAddr() net.Addr  { return nil }
func (c *recConn) RemoteAddr() net.Addr { return nil }
func (c *recConn) SetDeadline(t time.Time) error {
	c.ops = append(c.ops, M{"op": "SetDeadline", "t": c.now(), "dl": int(t.Sub(c.t0) / time.Millisecond)})
	return nil
}

func (c *recConn) SetReadDeadline(t time.Time) error {
	c.ops = append(c.ops, M{"op": "SetReadDeadline", "t": c.now(), "dl": int(t.Sub(c.t0) / time.Millisecond)})
	return nil
}

func (c *recConn) SetWriteDeadline(t time.Time) error {
	c.ops = append(c.ops, M{"op": "SetWriteDeadline", "t": c.now(), "dl": int(t.Sub(c.t0) / time.Millisecond)})
	return nil
}

// cmdTimed: C14 - sequences of reads and writes with pauses on a timednetconn over a recording net.Conn.
func cmdTimed(o opts) {
	rec := newRec(o.out)
	r := rand.New(rand.NewSource(o.seed))
	n := 6
	if o.tier == "thorough" {
		n = 40
	}
	for i := 0; i < n; i++ {
		rt := 50 + r.Intn(400)
		wt := 50 + r.Intn(400)
		rc := &recConn{t0: time.Now()}
		c := timednetconn.New(time.Duration(rt)*time.Millisecond, time.Duration(wt)*time.Millisecond, rc)
		calls := 0
		for k := 0; k < 8+r.Intn(10); k++ {
			if r.Intn(2) == 0 {
				c.Read(make([]byte, 4)) //nolint:errcheck
			} else {
				c.Write([]byte{1, 2}) //nolint:errcheck
			}
			calls++
			if r.Intn(3) == 0 {
				time.Sleep(time.Duration(r.Intn(30)) * time.Millisecond)
			}
		}
		c.Close()
		rec.Put(M{"e": "TIMED", "read_ms": rt, "write_ms": wt, "ops": rc.ops, "calls": calls})
	}
	rec.Close()
}
