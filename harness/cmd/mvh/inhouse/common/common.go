// Package common is an in-house dialect whose package and message type names coincide with those of the shipped
// dialect "common" while the definitions differ (a fork of a dialect is ordinary use of the library).
package common

import (
	"github.com/bluenviron/gomavlib/v3/pkg/dialect"
	"github.com/bluenviron/gomavlib/v3/pkg/message"
)

// MessageSysStatus has the name and id of the shipped SYS_STATUS, not its fields.
type MessageSysStatus struct {
	Load  uint16
	Flags uint8
	Name  string `mavlen:"10"`
}

// GetID implements message.Message.
func (*MessageSysStatus) GetID() uint32 { return 1 }

// MessageAttitude has the name and id of the shipped ATTITUDE, not its fields.
type MessageAttitude struct {
	TimeBootMs uint32
	Roll       float32
	Quality    uint8 `mavext:"true"`
}

// GetID implements message.Message.
func (*MessageAttitude) GetID() uint32 { return 30 }

// MessageHeartbeat is malformed (unsupported field type) and is a namesake of the shipped HEARTBEAT.
type MessageHeartbeat struct {
	Ok bool
}

// GetID implements message.Message.
func (*MessageHeartbeat) GetID() uint32 { return 0 }

// MessageNamedValueInt has the name, the id AND the number of fields of the shipped NAMED_VALUE_INT (a later revision of
// the definition: the name is 16 characters long instead of 10).
type MessageNamedValueInt struct {
	TimeBootMs uint32
	Value      int32
	Name       string `mavlen:"16"`
}

// GetID implements message.Message.
func (*MessageNamedValueInt) GetID() uint32 { return 252 }

// Good lists the well-formed namesakes.
var Good = []message.Message{&MessageSysStatus{}, &MessageAttitude{}, &MessageNamedValueInt{}}

// Dialect is the in-house dialect.
var Dialect = &dialect.Dialect{Version: 3, Messages: Good}
