package main

import (
	"math"
	"reflect"
	"strconv"

	"github.com/bluenviron/gomavlib/v3/pkg/dialect"
	"github.com/bluenviron/gomavlib/v3/pkg/dialects/all"
	"github.com/bluenviron/gomavlib/v3/pkg/dialects/ardupilotmega"
	"github.com/bluenviron/gomavlib/v3/pkg/dialects/asluav"
	"github.com/bluenviron/gomavlib/v3/pkg/dialects/avssuas"
	"github.com/bluenviron/gomavlib/v3/pkg/dialects/common"
	"github.com/bluenviron/gomavlib/v3/pkg/dialects/csairlink"
	"github.com/bluenviron/gomavlib/v3/pkg/dialects/cubepilot"
	"github.com/bluenviron/gomavlib/v3/pkg/dialects/development"
	"github.com/bluenviron/gomavlib/v3/pkg/dialects/icarous"
	"github.com/bluenviron/gomavlib/v3/pkg/dialects/loweheiser"
	"github.com/bluenviron/gomavlib/v3/pkg/dialects/matrixpilot"
	"github.com/bluenviron/gomavlib/v3/pkg/dialects/minimal"
	"github.com/bluenviron/gomavlib/v3/pkg/dialects/paparazzi"
	"github.com/bluenviron/gomavlib/v3/pkg/dialects/pythonarraytest"
	"github.com/bluenviron/gomavlib/v3/pkg/dialects/standard"
	"github.com/bluenviron/gomavlib/v3/pkg/dialects/storm32"
	"github.com/bluenviron/gomavlib/v3/pkg/dialects/test"
	"github.com/bluenviron/gomavlib/v3/pkg/dialects/ualberta"
	"github.com/bluenviron/gomavlib/v3/pkg/dialects/uavionix"
	"github.com/bluenviron/gomavlib/v3/pkg/message"
)

type namedDialect struct {
	Name string
	D    *dialect.Dialect
}

var shipped = []namedDialect{
	{"all", all.Dialect}, {"ardupilotmega", ardupilotmega.Dialect}, {"asluav", asluav.Dialect},
	{"avssuas", avssuas.Dialect}, {"common", common.Dialect}, {"csairlink", csairlink.Dialect},
	{"cubepilot", cubepilot.Dialect}, {"development", development.Dialect}, {"icarous", icarous.Dialect},
	{"loweheiser", loweheiser.Dialect}, {"matrixpilot", matrixpilot.Dialect}, {"minimal", minimal.Dialect},
	{"paparazzi", paparazzi.Dialect}, {"pythonarraytest", pythonarraytest.Dialect}, {"standard", standard.Dialect},
	{"storm32", storm32.Dialect}, {"test", test.Dialect}, {"ualberta", ualberta.Dialect}, {"uavionix", uavionix.Dialect},
}

// FieldJ / DefJ: the reflected Go struct of a message, as MavMessage!FromGo expects it.
type FieldJ struct {
	GoName  B      `json:"goname"`
	MavName B      `json:"mavname"`
	GoKind  string `json:"gokind"`
	MavEnum string `json:"mavenum"`
	Arr     int    `json:"arr"`
	MavLen  int    `json:"mavlen"`
	Ext     bool   `json:"ext"`
	// the field's Go type is a defined type (type Callsign string, type Celsius float32) without a mavenum tag: whether
	// a message struct may have such fields is the library's choice - if it accepts one, it has to encode it
	Defined bool `json:"defined"`
}

type DefJ struct {
	GoName B        `json:"goname"`
	Type   string   `json:"type"`
	ID     int      `json:"id"`
	Fields []FieldJ `json:"fields"`
}

func typeName(m message.Message) string {
	t := reflect.TypeOf(m).Elem()
	return t.PkgPath() + "." + t.Name()
}

func defOf(m message.Message) DefJ {
	t := reflect.TypeOf(m).Elem()
	d := DefJ{GoName: B(t.Name()), Type: t.PkgPath() + "." + t.Name(), ID: int(m.GetID()), Fields: []FieldJ{}}
	for i := 0; i < t.NumField(); i++ {
		f := t.Field(i)
		fj := FieldJ{GoName: B(f.Name), MavName: B(f.Tag.Get("mavname")), MavEnum: f.Tag.Get("mavenum"),
			MavLen: -1, Ext: f.Tag.Get("mavext") == "true"}
		gt := f.Type
		if gt.Kind() == reflect.Array {
			fj.Arr = gt.Len()
			gt = gt.Elem()
		}
		fj.GoKind = gt.Kind().String()
		fj.Defined = gt.Name() != gt.Kind().String() && fj.MavEnum == ""
		if l := f.Tag.Get("mavlen"); l != "" {
			n, err := strconv.Atoi(l)
			if err != nil {
				n = -2
			}
			fj.MavLen = n
		}
		d.Fields = append(d.Fields, fj)
	}
	return d
}

func elemBytes(v reflect.Value) B {
	switch v.Kind() {
	case reflect.String:
		return B(v.String())
	case reflect.Uint8, reflect.Uint16, reflect.Uint32, reflect.Uint64:
		return le(v.Uint(), int(v.Type().Size()))
	case reflect.Int8, reflect.Int16, reflect.Int32, reflect.Int64:
		return le(uint64(v.Int()), int(v.Type().Size()))
	case reflect.Float32:
		return le(uint64(math.Float32bits(float32(v.Float()))), 4)
	case reflect.Float64:
		return le(math.Float64bits(v.Float()), 8)
	}
	return B{}
}

// float32 values must travel bit for bit: reflect's Float() widens, which keeps NaN payloads on amd64
// but to be independent of that we read the memory through the typed pointer.
func elemBytesExact(v reflect.Value) B {
	if v.Kind() == reflect.Float32 && v.CanAddr() {
		p := v.Addr().Interface().(*float32)
		return le(uint64(math.Float32bits(*p)), 4)
	}
	if v.Kind() == reflect.Float64 && v.CanAddr() {
		p := v.Addr().Interface().(*float64)
		return le(math.Float64bits(*p), 8)
	}
	return elemBytes(v)
}

// valsOf projects a decoded message: per field a list of elements.
func valsOf(m message.Message) [][]B {
	v := reflect.ValueOf(m).Elem()
	out := make([][]B, v.NumField())
	for i := 0; i < v.NumField(); i++ {
		f := v.Field(i)
		if f.Kind() == reflect.Array {
			out[i] = make([]B, f.Len())
			for k := 0; k < f.Len(); k++ {
				out[i][k] = elemBytesExact(f.Index(k))
			}
		} else {
			out[i] = []B{elemBytesExact(f)}
		}
	}
	return out
}

func setElem(v reflect.Value, b B) {
	switch v.Kind() {
	case reflect.String:
		v.SetString(string(b))
	case reflect.Uint8, reflect.Uint16, reflect.Uint32, reflect.Uint64:
		v.SetUint(fromLE(b))
	case reflect.Int8:
		v.SetInt(int64(int8(fromLE(b))))
	case reflect.Int16:
		v.SetInt(int64(int16(fromLE(b))))
	case reflect.Int32:
		v.SetInt(int64(int32(fromLE(b))))
	case reflect.Int64:
		v.SetInt(int64(fromLE(b)))
	case reflect.Float32:
		*(v.Addr().Interface().(*float32)) = math.Float32frombits(uint32(fromLE(b)))
	case reflect.Float64:
		*(v.Addr().Interface().(*float64)) = math.Float64frombits(fromLE(b))
	}
}

// newMsg allocates a fresh message of the same type as proto and fills it.
func newMsg(proto message.Message, vals [][]B) message.Message {
	t := reflect.TypeOf(proto).Elem()
	p := reflect.New(t)
	v := p.Elem()
	for i := 0; i < v.NumField() && i < len(vals); i++ {
		f := v.Field(i)
		if f.Kind() == reflect.Array {
			for k := 0; k < f.Len() && k < len(vals[i]); k++ {
				setElem(f.Index(k), vals[i][k])
			}
		} else if len(vals[i]) > 0 {
			setElem(f, vals[i][0])
		}
	}
	return p.Interface().(message.Message)
}

// zeroVals gives the all-zero assignment for a message type.
func zeroVals(proto message.Message) [][]B {
	return valsOf(newMsg(proto, nil))
}

// MsgJ is the JSON form of a decoded message.
type MsgJ struct {
	Type string `json:"type"`
	ID   int    `json:"id"`
	Vals [][]B  `json:"vals"`
}

func msgToJ(m message.Message) *MsgJ {
	if m == nil {
		return nil
	}
	if raw, ok := m.(*message.MessageRaw); ok {
		return &MsgJ{Type: "raw", ID: int(raw.ID), Vals: [][]B{{B(raw.Payload)}}}
	}
	return &MsgJ{Type: typeName(m), ID: int(m.GetID()), Vals: valsOf(m)}
}

// distinctMessages lists every distinct message struct type of the shipped dialects
// (plus the harness's own user structs) in a deterministic order.
func distinctMessages() []message.Message {
	seen := map[reflect.Type]bool{}
	var out []message.Message
	for _, nd := range shipped {
		for _, m := range nd.D.Messages {
			t := reflect.TypeOf(m)
			if !seen[t] {
				seen[t] = true
				out = append(out, m)
			}
		}
	}
	return out
}
