package main

import "github.com/bluenviron/gomavlib/v3/pkg/message"

// MsgJ is the JSON form of a decoded message (filled in by the message engine).
type MsgJ struct {
	Type string `json:"type"`
	Vals []B    `json:"vals"`
}

func msgToJ(m message.Message) *MsgJ { return nil }
