package main

import (
	"bufio"
	"bytes"
	"errors"
	"io"
	"math/rand"
	"reflect"
	"time"

	"github.com/bluenviron/gomavlib/v3/pkg/dialect"
	"github.com/bluenviron/gomavlib/v3/pkg/frame"
	"github.com/bluenviron/gomavlib/v3/pkg/message"
)

var errSentinel = errors.New("verif: injected transport error")

// chunkReader delivers data[:limit] in chunks following a schedule, then fails.
type chunkReader struct {
	pauseAt  int           // before delivering the byte at this offset ...
	pause    time.Duration // ... the transport is silent for this long (0: never)
	paused   bool
	data     []byte
	limit    int   // bytes delivered before the error
	sched    []int // chunk sizes, cycled; empty = as much as asked
	si       int
	pos      int
	err      error
	withData bool // return the final bytes together with the error
	drawn    int
}

func (c *chunkReader) Read(p []byte) (int, error) {
	if c.pos >= c.limit {
		return 0, c.err
	}
	if c.pause > 0 && !c.paused && c.pos >= c.pauseAt {
		c.paused = true
		time.Sleep(c.pause)
	}
	n := len(p)
	if len(c.sched) > 0 {
		k := c.sched[c.si%len(c.sched)]
		c.si++
		if k == 0 {
			return 0, nil // an empty read (allowed by io.Reader: a poll that found nothing); never two in a row here
		}
		if k < n {
			n = k
		}
	}
	if n > c.limit-c.pos {
		n = c.limit - c.pos
	}
	if c.pause > 0 && !c.paused && c.pos+n > c.pauseAt {
		n = c.pauseAt - c.pos // nothing of what follows the silence arrives before it
	}
	if n == 0 {
		n = 1
	}
	copy(p, c.data[c.pos:c.pos+n])
	c.pos += n
	c.drawn += n
	if c.pos >= c.limit && c.withData {
		return n, c.err
	}
	return n, nil
}

// ResJ is one Reader.Read result with the cursor.
type ResJ struct {
	K    string  `json:"k"`
	F    *FrameJ `json:"f,omitempty"`
	Dec  *MsgJ   `json:"dec,omitempty"`
	Cur  int     `json:"cur"`
	Terr string  `json:"terr,omitempty"`
}

type streamCfg struct {
	drw     *dialect.ReadWriter
	dl      []int // def indices (1-based) of the dialect, for the spec
	key     *frame.V2Key
	pauseAt int // the transport is silent for `pause` before the byte at this offset
	pause   time.Duration
	bufSize int // size of the caller's bufio.Reader (0 = 512, what the library's own constructors use)
	// the caller treats what Read returned as its own: each result is looked at the moment it is returned and then
	// overwritten in place (every field of a decoded message, every payload byte of a raw one) before the next Read
	ownEdits bool
}

// runStream drives a real frame.Reader over the stream until it reports a transport error.
func runStream(data []byte, errat int, errkind string, sched []int, withData bool, cfg streamCfg) []ResJ {
	limit := len(data)
	if errat >= 0 && errat < limit {
		limit = errat
	}
	var terr error = io.EOF
	if errkind == "sentinel" {
		terr = errSentinel
	}
	src := &chunkReader{data: data, limit: limit, sched: sched, err: terr, withData: withData, pauseAt: cfg.pauseAt, pause: cfg.pause}
	bs := cfg.bufSize
	if bs == 0 {
		bs = 512
	}
	br := bufio.NewReaderSize(src, bs)
	r := &frame.Reader{BufByteReader: br, DialectRW: cfg.drw, InKey: cfg.key}
	if err := r.Initialize(); err != nil {
		fatal("reader init: %v", err)
	}
	// The results are converted only after the whole stream has been read: a frame handed to the caller must stay
	// what it was while the reader goes on (it must not alias the reader's buffers).
	type rawRes struct {
		fr   frame.Frame
		err  error
		pan  bool
		cur  int
		snap *readRes
	}
	var raws []rawRes
	var prevRaw *message.MessageRaw
	for calls := 0; calls < limit+8; calls++ {
		var rr rawRes
		func() {
			defer func() {
				if p := recover(); p != nil {
					rr.pan = true
				}
			}()
			rr.fr, rr.err = r.Read()
		}()
		rr.cur = src.drawn - br.Buffered()
		if cfg.ownEdits && !rr.pan {
			// a payload the caller was handed earlier is a slice of its own: appending to it (a router restoring the zeros
			// that v2 truncation removed) must not reach into what the reader has returned since
			if prevRaw != nil {
				_ = append(prevRaw.Payload, bytes.Repeat([]byte{0xEE}, 48)...)
				prevRaw = nil
			}
			snap := classify(rr.fr, rr.err)
			rr.snap = &snap
			if rr.err == nil && rr.fr != nil {
				if m, ok := rr.fr.GetMessage().(*message.MessageRaw); ok && len(m.Payload) > 0 {
					prevRaw = m
				}
			}
			if rr.err == nil && rr.fr != nil {
				func() {
					defer func() { recover() }() //nolint:errcheck
					switch m := rr.fr.GetMessage().(type) {
					case *message.MessageRaw:
						for i := range m.Payload {
							m.Payload[i] = 0xEE
						}
					case nil:
					default:
						scribble(reflect.ValueOf(m).Elem())
					}
				}()
			}
		}
		raws = append(raws, rr)
		if rr.pan {
			break
		}
		if rr.err != nil {
			var re frame.ReadError
			if !errors.As(rr.err, &re) {
				break
			}
		}
	}
	var out []ResJ
	for _, rr := range raws {
		res := readRes{K: "panic"}
		if rr.snap != nil {
			res = *rr.snap
		} else if !rr.pan {
			res = classify(rr.fr, rr.err)
		}
		j := ResJ{K: res.K, F: res.F, Dec: res.Dec, Cur: rr.cur}
		if res.K == "terr" {
			switch res.Err {
			case io.EOF.Error():
				j.Terr = "eof"
			case errSentinel.Error():
				j.Terr = "sentinel"
			default:
				j.Terr = "other:" + res.Err
			}
		}
		out = append(out, j)
	}
	return out
}

type streamEmitter struct {
	rec        *Rec
	g          int
	incomplete bool // do not ask the monitor for the completeness clause (tampered signed streams)
	n          int
}

// the caller of frame.Reader brings its own bufio.Reader: its size is one more dimension (bufio's minimum is 16)
var bufSizes = []int{512, 16, 4096, 64, 512, 300, 32, 128}

func (e *streamEmitter) group() int { e.g++; return e.g }

func (e *streamEmitter) put(g int, data []byte, errat int, errkind string, sched []int, withData bool, cfg streamCfg,
	clean bool, tag string) {
	if cfg.bufSize == 0 {
		cfg.bufSize = bufSizes[e.n%len(bufSizes)]
	}
	e.n++
	res := runStream(data, errat, errkind, sched, withData, cfg)
	// the same stream once more through a fresh reader whose caller overwrites everything it is handed before it reads
	// on: the results must be the same. Only if they are not is the second run recorded too (the monitor judges it)
	var res2 []ResJ
	if cfg.pause == 0 && len(data) < 1<<16 {
		cfg2 := cfg
		cfg2.ownEdits = true
		if r2 := runStream(data, errat, errkind, sched, withData, cfg2); !reflect.DeepEqual(res, r2) {
			res2 = r2
		}
	}
	key := B{}
	if cfg.key != nil {
		key = B(cfg.key[:])
	}
	dl := cfg.dl
	if dl == nil {
		dl = []int{}
	}
	if sched == nil {
		sched = []int{}
	}
	e.rec.Put(M{"e": "STREAM", "g": g, "in": B(data), "errat": errat, "errkind": errkind, "sched": sched,
		"with_data": withData, "dl": dl, "key": key, "results": res, "clean": clean, "tag": tag, "complete": !e.incomplete, "buf": cfg.bufSize})
	if res2 != nil {
		e.rec.Put(M{"e": "STREAM", "g": e.group(), "in": B(data), "errat": errat, "errkind": errkind, "sched": sched,
			"with_data": withData, "dl": dl, "key": key, "results": res2, "clean": clean, "tag": tag + "_caller_overwrites_what_it_got", "complete": !e.incomplete, "buf": cfg.bufSize})
	}
}

// chunkings returns the chunk schedules to try for a stream of n bytes with region boundaries cuts.
func chunkings(r *rand.Rand, n int, cuts []int, thorough bool) [][]int {
	// {0, 1}: a poll that finds nothing before every single byte; {0, 2, 0, 7}: the same with small pieces
	out := [][]int{nil, {1}, {0, 1}, {0, 2, 0, 7}}
	rs := make([]int, 8)
	for i := range rs {
		rs[i] = 1 + r.Intn(7)
	}
	out = append(out, rs)
	// one schedule per cut point: first chunk ends exactly at the boundary, then the rest
	for i, c := range cuts {
		if c <= 0 || c >= n {
			continue
		}
		if !thorough && i%2 == 1 {
			continue
		}
		out = append(out, []int{c, 1, 1 << 20})
		out = append(out, []int{c - 1 + (1 - min1(c)), 2, 1 << 20})
	}
	return out
}

func min1(c int) int {
	if c >= 1 {
		return 1
	}
	return 0
}
