package main

import (
	"bufio"
	"encoding/json"
	"errors"
	"io"
	"math/rand"
	"os"
	"sync"
	"sync/atomic"

	inhouse "verif/harness/cmd/mvh/inhouse/common"

	"github.com/bluenviron/gomavlib/v3/pkg/frame"
)

func init() { cmds["gate"] = cmdGate }

type gateVec struct {
	D     int    `json:"d"`
	F     FrameJ `json:"f"`
	Bytes B      `json:"bytes"`
}

func readVectors(path string, into interface{}) {
	f, err := os.Open(path)
	if err != nil {
		fatal("%v", err)
	}
	defer f.Close()
	sc := bufio.NewScanner(f)
	sc.Buffer(make([]byte, 1<<20), 1<<26)
	var raws []json.RawMessage
	for sc.Scan() {
		raws = append(raws, append(json.RawMessage{}, sc.Bytes()...))
	}
	all, _ := json.Marshal(raws)
	if err := json.Unmarshal(all, into); err != nil {
		fatal("vectors: %v", err)
	}
}

// cmdGate: C02 (c). Spec-made valid frames of dialect messages; each untouched and damaged
// (every single-bit flip, byte substitutions, multi-byte damage) through a real dialect reader.
func cmdGate(o opts) {
	rec := newRec(o.out)
	r := rand.New(rand.NewSource(o.seed))
	thorough := o.tier == "thorough"
	em := &streamEmitter{rec: rec}

	protos := allProtos()
	ix := defIndex(protos)
	all := findDialect("allplus")
	if o.aux == "inhouse" {
		// the in-house dialect whose message types are namesakes (name, id, even field count) of shipped ones; the shipped
		// dialects are initialised first, in this process, as a gateway between the two would
		mustRW(findDialect("common"))
		all = inhouse.Dialect
	}
	cfg := streamCfg{drw: mustRW(all), dl: dialectIndices(all, ix)}

	var vecs []gateVec
	readVectors(o.vectors, &vecs)
	fullFlips := 8
	if thorough {
		fullFlips = 200
	}
	for vi, v := range vecs {
		data := []byte(v.Bytes)
		em.put(em.group(), data, -1, "eof", nil, false, cfg, true, "valid")
		em.put(em.group(), data, -1, "eof", []int{1}, false, cfg, true, "valid")
		// single-bit flips
		for i := 0; i < len(data); i++ {
			for b := 0; b < 8; b++ {
				if vi >= fullFlips {
					// sampled: always both checksum bytes and a few others
					isCk := i == len(data)-1 || i == len(data)-2
					if !isCk && r.Intn(12) != 0 {
						continue
					}
				}
				d2 := append([]byte{}, data...)
				d2[i] ^= 1 << uint(b)
				em.put(em.group(), d2, -1, "eof", nil, false, cfg, false, "flip")
			}
		}
		// byte substitutions
		ns := 6
		if thorough {
			ns = 40
		}
		for k := 0; k < ns; k++ {
			d2 := append([]byte{}, data...)
			i := r.Intn(len(d2))
			d2[i] = byte(r.Intn(256))
			em.put(em.group(), d2, -1, "eof", nil, false, cfg, false, "sub")
		}
		// multi-byte damage
		for k := 0; k < ns; k++ {
			d2 := append([]byte{}, data...)
			for m := 0; m < 2+r.Intn(4); m++ {
				d2[r.Intn(len(d2))] ^= byte(1 + r.Intn(255))
			}
			em.put(em.group(), d2, -1, "eof", nil, false, cfg, false, "multi")
		}
		// two valid frames with a damaged one in between
		if vi+1 < len(vecs) {
			d2 := append([]byte{}, data...)
			mid := append([]byte{}, data...)
			mid[len(mid)-1] ^= 0x40
			d2 = append(d2, mid...)
			d2 = append(d2, vecs[vi+1].Bytes...)
			g := em.group()
			em.put(g, d2, -1, "eof", nil, false, cfg, false, "sandwich")
			em.put(g, d2, -1, "eof", []int{3}, false, cfg, false, "sandwich")
		}
	}
	// several readers sharing ONE dialect.ReadWriter (what the channels of a node do), each decoding valid frames of many
	// different message types at full speed: every frame must still be delivered
	var base []byte
	for _, v := range vecs {
		base = append(base, v.Bytes...)
	}
	passes := 40000/len(vecs) + 1
	if thorough {
		passes *= 10
	}
	const nread = 4
	delivered := make([]int, nread)
	perr := make([]int, nread)
	var pan atomic.Bool
	var wg sync.WaitGroup
	for g := 0; g < nread; g++ {
		wg.Add(1)
		go func(g int) {
			defer wg.Done()
			defer func() {
				if x := recover(); x != nil {
					pan.Store(true)
				}
			}()
			// reader g starts a quarter of the way further into the sequence of message types
			off := 0
			for i := 0; i < (len(vecs)*g)/nread; i++ {
				off += len(vecs[i].Bytes)
			}
			one := append(append([]byte{}, base[off:]...), base[:off]...)
			src := &repeatReader{data: one, left: passes}
			rd := &frame.Reader{BufByteReader: bufio.NewReaderSize(src, 512), DialectRW: cfg.drw}
			if err := rd.Initialize(); err != nil {
				return
			}
			for {
				_, err := rd.Read()
				if err == nil {
					delivered[g]++
					continue
				}
				var re frame.ReadError
				if errors.As(err, &re) {
					perr[g]++
					continue
				}
				return
			}
		}(g)
	}
	wg.Wait()
	rec.Put(M{"e": "CONC", "in": B(base), "dl": cfg.dl, "passes": passes, "delivered": delivered, "perr": perr, "panic": pan.Load()})
	rec.Close()
}

// repeatReader delivers data `left` times over
type repeatReader struct {
	data []byte
	pos  int
	left int
}

func (r *repeatReader) Read(p []byte) (int, error) {
	if r.left <= 0 {
		return 0, io.EOF
	}
	n := copy(p, r.data[r.pos:])
	r.pos += n
	if r.pos >= len(r.data) {
		r.pos = 0
		r.left--
	}
	return n, nil
}
