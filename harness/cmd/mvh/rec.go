package main

import (
	"bufio"
	"encoding/json"
	"fmt"
	"math/rand"
	"os"
	"strconv"
	"sync"

	"github.com/bluenviron/gomavlib/v3/pkg/frame"
	"github.com/bluenviron/gomavlib/v3/pkg/message"
)

// B is a byte string that travels as a JSON array of ints (TLC reads it as a
// sequence over 0..255).
type B []byte

func (b B) MarshalJSON() ([]byte, error) {
	out := make([]byte, 0, 2+4*len(b))
	out = append(out, '[')
	for i, x := range b {
		if i > 0 {
			out = append(out, ',')
		}
		out = strconv.AppendInt(out, int64(x), 10)
	}
	out = append(out, ']')
	return out, nil
}

func (b *B) UnmarshalJSON(in []byte) error {
	var xs []int
	if err := json.Unmarshal(in, &xs); err != nil {
		return err
	}
	*b = make([]byte, len(xs))
	for i, x := range xs {
		(*b)[i] = byte(x)
	}
	return nil
}

func le(x uint64, n int) B {
	out := make(B, n)
	for i := 0; i < n; i++ {
		out[i] = byte(x >> (8 * i))
	}
	return out
}

func fromLE(b []byte) uint64 {
	var x uint64
	for i := len(b) - 1; i >= 0; i-- {
		x = x<<8 | uint64(b[i])
	}
	return x
}

// M is one record.
type M map[string]interface{}

// Rec writes ndjson records. Every record gets a global sequence number taken
// under one mutex.
type Rec struct {
	mu    sync.Mutex
	w     *bufio.Writer
	f     *os.File
	seq   int
	Flush bool // flush after every record (node player: the trace must survive a hung or killed process)
}

func newRec(path string) *Rec {
	f, err := os.Create(path)
	if err != nil {
		fatal("create %s: %v", path, err)
	}
	return &Rec{w: bufio.NewWriterSize(f, 1<<20), f: f}
}

func (r *Rec) Put(m M) {
	r.mu.Lock()
	defer r.mu.Unlock()
	r.seq++
	m["seq"] = r.seq
	buf, err := json.Marshal(m)
	if err != nil {
		fatal("marshal: %v", err)
	}
	r.w.Write(buf)
	r.w.WriteByte('\n')
	if r.Flush {
		r.w.Flush()
	}
}

func (r *Rec) Close() int {
	r.mu.Lock()
	defer r.mu.Unlock()
	r.w.Flush()
	r.f.Close()
	return r.seq
}

func fatal(format string, args ...interface{}) {
	fmt.Fprintf(os.Stderr, "mvh: "+format+"\n", args...)
	os.Exit(2)
}

// FrameJ is the JSON form of a frame (see MavFrame.tla).
type FrameJ struct {
	V       int `json:"v"`
	IFlag   int `json:"iflag"`
	CFlag   int `json:"cflag"`
	Seq     int `json:"seq"`
	Sys     int `json:"sys"`
	Comp    int `json:"comp"`
	ID      int `json:"id"`
	Payload B   `json:"payload"`
	Ck      int `json:"ck"`
	Link    int `json:"link"`
	Ts      B   `json:"ts"`
	Sig     B   `json:"sig"`
}

var z6 = B{0, 0, 0, 0, 0, 0}

// toGo builds a library frame carrying a raw message.
func (j FrameJ) toGo() frame.Frame {
	pl := append([]byte(nil), j.Payload...)
	if len(pl) == 0 {
		pl = nil
	}
	msg := &message.MessageRaw{ID: uint32(j.ID), Payload: pl}
	if j.V == 1 {
		return &frame.V1Frame{
			SequenceNumber: byte(j.Seq), SystemID: byte(j.Sys), ComponentID: byte(j.Comp),
			Message: msg, Checksum: uint16(j.Ck),
		}
	}
	f := &frame.V2Frame{
		IncompatibilityFlag: byte(j.IFlag), CompatibilityFlag: byte(j.CFlag),
		SequenceNumber: byte(j.Seq), SystemID: byte(j.Sys), ComponentID: byte(j.Comp),
		Message: msg, Checksum: uint16(j.Ck),
	}
	if j.IFlag&1 != 0 {
		f.SignatureLinkID = byte(j.Link)
		f.SignatureTimestamp = fromLE(j.Ts)
		sig := new(frame.V2Signature)
		copy(sig[:], j.Sig)
		f.Signature = sig
	}
	return f
}

// fromGo projects a library frame whose message is raw. ok=false if the
// message is not a *MessageRaw (caller handles decoded messages).
func fromGo(fr frame.Frame) (FrameJ, bool) {
	var j FrameJ
	j.Ts = z6
	j.Sig = B{}
	j.Payload = B{}
	var m message.Message
	switch f := fr.(type) {
	case *frame.V1Frame:
		j.V = 1
		j.Seq, j.Sys, j.Comp, j.Ck = int(f.SequenceNumber), int(f.SystemID), int(f.ComponentID), int(f.Checksum)
		m = f.Message
	case *frame.V2Frame:
		j.V = 2
		j.IFlag, j.CFlag = int(f.IncompatibilityFlag), int(f.CompatibilityFlag)
		j.Seq, j.Sys, j.Comp, j.Ck = int(f.SequenceNumber), int(f.SystemID), int(f.ComponentID), int(f.Checksum)
		m = f.Message
		if f.Signature != nil {
			j.Link = int(f.SignatureLinkID)
			j.Ts = le(f.SignatureTimestamp, 6)
			j.Sig = B(append([]byte(nil), f.Signature[:]...))
		}
	default:
		return j, false
	}
	if m == nil {
		return j, false
	}
	j.ID = int(m.GetID())
	raw, ok := m.(*message.MessageRaw)
	if !ok {
		return j, false
	}
	j.Payload = B(append([]byte{}, raw.Payload...))
	return j, true
}

func rbytes(r *rand.Rand, n int) B {
	b := make(B, n)
	for i := range b {
		b[i] = byte(r.Intn(256))
	}
	return b
}
