package main

import (
	"crypto/sha256"
	"math/rand"
	"time"

	"github.com/bluenviron/gomavlib/v3/pkg/frame"
	"github.com/bluenviron/gomavlib/v3/pkg/streamwriter"
)

func init() {
	cmds["c06r"] = cmdC06Reader
	cmds["c07r"] = cmdC07Reader
	cmds["c06d"] = cmdC06Dialect
}

type signDlVec struct {
	Kind  string `json:"kind"`
	D     int    `json:"d"`
	Ti    int    `json:"ti"`
	Key   B      `json:"key"`
	Bytes B      `json:"bytes"`
}

// cmdC06Dialect: a reader with an incoming key AND a dialect. Spec-signed frames of dialect messages (canonical,
// with trailing zeros kept, with bytes beyond the known fields), of an id the dialect lacks, and frames lengthened
// after signing. -aux c06: every vector alone and forgeries; -aux c07: window histories mixing known and unknown ids.
func cmdC06Dialect(o opts) {
	rec := newRec(o.out)
	r := rand.New(rand.NewSource(o.seed))
	thorough := o.tier == "thorough"
	em := &streamEmitter{rec: rec}
	var vecs []signDlVec
	readVectors(o.vectors, &vecs)
	protos := allProtos()
	ix := defIndex(protos)
	all := findDialect("allplus")
	cfg := streamCfg{drw: mustRW(all), dl: dialectIndices(all, ix), key: frame.NewV2Key(vecs[0].Key)}
	cat := func(bs ...[]byte) []byte {
		var out []byte
		for _, b := range bs {
			out = append(out, b...)
		}
		return out
	}
	if o.aux != "c07" {
		var firstCanon []byte
		for _, v := range vecs {
			forged := v.Kind == "forged_pad" || v.Kind == "forged_ext"
			if v.Kind == "canon" && firstCanon == nil {
				firstCanon = v.Bytes
			}
			badck := v.Kind == "badck" || v.Kind == "badck_extra"
			em.incomplete = forged || badck
			g := em.group()
			em.put(g, v.Bytes, -1, "eof", nil, false, cfg, false, "kd_"+v.Kind)
			em.put(g, v.Bytes, -1, "eof", []int{1}, false, cfg, false, "kd_"+v.Kind)
			if forged && firstCanon != nil {
				em.put(em.group(), cat(firstCanon, v.Bytes, firstCanon), -1, "eof", []int{5}, false, cfg, false, "kd_"+v.Kind+"_between")
			}
		}
		if o.aux == "c05" {
			// C05: what a reader has handed out stays what it was while it goes on. Every history of three frames over
			// {unknown id (handed out raw), no payload at all, canonical, zero-padded, extended} of one message through
			// one reader: each frame must come out and - the results are looked at after the whole stream - must still
			// match the bytes it was read from.
			em.incomplete = false
			byD := map[int]map[string][]byte{}
			var unknown []byte
			for _, v := range vecs {
				if v.Kind == "unknown" && v.Ti == 4 {
					unknown = v.Bytes
				}
				if v.Ti == 4 && v.D != 0 {
					if byD[v.D] == nil {
						byD[v.D] = map[string][]byte{}
					}
					byD[v.D][v.Kind] = v.Bytes
				}
			}
			nd := 0
			for _, m := range byD {
				syms := [][]byte{unknown, m["empty"], m["canon"], m["padded"], m["extended"]}
				ok := true
				for _, b := range syms {
					ok = ok && b != nil
				}
				if !ok {
					fatal("c06d -aux c05: vectors of Gen_SignedDl incomplete")
				}
				if nd++; nd > 1 && !thorough {
					break
				}
				for a := range syms {
					for b := range syms {
						for c := range syms {
							em.put(em.group(), cat(syms[a], syms[b], syms[c]), -1, "eof", []int{1 + (a+3*b+7*c)%40}, false, cfg, false, "kd_hist3_shapes")
						}
					}
				}
			}
			rec.Close()
			return
		}
		// no message id is exempt: an unsigned v2 frame and a v1 frame of EVERY message of the dialect (valid checksum, made
		// by the library's own unkeyed writer) through the keyed reader with and without the dialect: none may be delivered
		em.incomplete = true
		for _, m := range all.Messages {
			for _, ver := range []streamwriter.Version{streamwriter.V2, streamwriter.V1} {
				if ver == streamwriter.V1 && m.GetID() > 255 {
					continue
				}
				sink := &recWriter{}
				w := &streamwriter.Writer{FrameWriter: &frame.Writer{ByteWriter: sink, DialectRW: cfg.drw}, Version: ver, SystemID: 9}
				func() {
					defer func() { recover() }()
					if err := w.FrameWriter.Initialize(); err != nil {
						return
					}
					if err := w.Initialize(); err != nil {
						return
					}
					w.Write(newMsg(m, zeroVals(m))) //nolint:errcheck
				}()
				if sink.buf.Len() == 0 {
					continue
				}
				data := append([]byte{}, sink.buf.Bytes()...)
				tag := "kd_unsigned_every_id_v2"
				if ver == streamwriter.V1 {
					tag = "kd_v1_every_id"
				}
				em.put(em.group(), data, -1, "eof", nil, false, cfg, false, tag)
				em.put(em.group(), data, -1, "eof", nil, false, streamCfg{key: cfg.key}, false, tag+"_nodialect")
			}
		}
		rec.Close()
		return
	}
	// window histories: symbols = (canon of the first message | unknown id) x timestamp
	var syms [][]byte
	d0 := 0
	for _, v := range vecs {
		if v.Kind == "canon" && d0 == 0 {
			d0 = v.D
		}
	}
	for _, v := range vecs {
		if (v.Kind == "canon" && v.D == d0) || v.Kind == "unknown" {
			syms = append(syms, v.Bytes)
		}
	}
	em.incomplete = false
	for a := range syms {
		for b := range syms {
			em.put(em.group(), cat(syms[a], syms[b]), -1, "eof", nil, false, cfg, false, "kd_hist2")
		}
	}
	n3 := 150
	if thorough {
		n3 = 1000
	}
	for i := 0; i < n3; i++ {
		a, b, c := r.Intn(len(syms)), r.Intn(len(syms)), r.Intn(len(syms))
		if thorough {
			a, b, c = i/100, (i/10)%10, i%10
			if a >= len(syms) || b >= len(syms) || c >= len(syms) {
				continue
			}
		}
		em.put(em.group(), cat(syms[a], syms[b], syms[c]), -1, "eof", []int{1 + r.Intn(40)}, false, cfg, false, "kd_hist3")
	}
	rec.Close()
}

type signVec struct {
	Key   B      `json:"key"`
	F     FrameJ `json:"f"`
	Bytes B      `json:"bytes"`
	I     int    `json:"i"`
}

// cmdC06Reader: spec-signed frames through a real reader with InKey: untouched (must be delivered),
// every single bit of every byte flipped, flag cleared, re-framed as v1, read with another key, no key.
func cmdC06Reader(o opts) {
	rec := newRec(o.out)
	r := rand.New(rand.NewSource(o.seed))
	thorough := o.tier == "thorough"
	em := &streamEmitter{rec: rec}
	var vecs []signVec
	readVectors(o.vectors, &vecs)
	for _, v := range vecs {
		key := frame.NewV2Key(v.Key)
		cfg := streamCfg{key: key}
		data := []byte(v.Bytes)
		em.incomplete = false
		g := em.group()
		em.put(g, data, -1, "eof", nil, false, cfg, false, "signed_valid")
		em.put(g, data, -1, "eof", []int{1}, false, cfg, false, "signed_valid")
		// same frame twice: equal timestamps are inside the window
		em.put(em.group(), append(append([]byte{}, data...), data...), -1, "eof", nil, false, cfg, false, "signed_twice")
		// read without any key: delivered as is
		em.put(em.group(), data, -1, "eof", nil, false, streamCfg{}, false, "signed_nokey")

		em.incomplete = true
		// every single bit of every byte
		for i := 0; i < len(data); i++ {
			for b := 0; b < 8; b++ {
				if !thorough && len(data) > 80 && i >= 10 && i < len(data)-15 && (i+b)%9 != int(o.seed%9) {
					continue // long payloads: sample the payload bits, keep all header / checksum / signature-block bits
				}
				d2 := append([]byte{}, data...)
				d2[i] ^= 1 << uint(b)
				em.put(em.group(), d2, -1, "eof", nil, false, cfg, false, "bitflip")
			}
		}
		// signed flag cleared (the 13 signature bytes then follow as junk)
		d2 := append([]byte{}, data...)
		d2[2] = 0
		em.put(em.group(), d2, -1, "eof", nil, false, cfg, false, "flag_cleared")
		// unsigned v2 frame with the same content
		ju := v.F
		ju.IFlag, ju.Link, ju.Ts, ju.Sig = 0, 0, z6, B{}
		em.put(em.group(), frameBytes(ju), -1, "eof", nil, false, cfg, false, "unsigned_v2")
		// re-framed as v1
		j1 := v.F
		j1.V, j1.IFlag, j1.CFlag, j1.Link, j1.Ts, j1.Sig = 1, 0, 0, 0, z6, B{}
		j1.ID = j1.ID % 256
		em.put(em.group(), frameBytes(j1), -1, "eof", nil, false, cfg, false, "v1")
		// another key
		k2 := append([]byte{}, v.Key...)
		k2[r.Intn(32)] ^= 1 << uint(r.Intn(8))
		em.put(em.group(), data, -1, "eof", nil, false, streamCfg{key: frame.NewV2Key(k2)}, false, "wrong_key")
		// signature truncated to a prefix match: last signature byte replaced
		d3 := append([]byte{}, data...)
		d3[len(d3)-1] ^= 0xFF
		em.put(em.group(), d3, -1, "eof", nil, false, cfg, false, "sig_tail")
	}
	rec.Close()
}

// cmdC07Reader: histories over the alphabet of spec-signed frames.
func cmdC07Reader(o opts) {
	rec := newRec(o.out)
	r := rand.New(rand.NewSource(o.seed))
	thorough := o.tier == "thorough"
	var vecs []signVec
	readVectors(o.vectors, &vecs)
	// order by alphabet index
	alpha := make([][]byte, len(vecs))
	for _, v := range vecs {
		alpha[v.I-1] = v.Bytes
	}
	frames := make([]B, len(alpha))
	for i := range alpha {
		frames[i] = B(alpha[i])
	}
	key := frame.NewV2Key(vecs[0].Key)
	rec.Put(M{"e": "WINSET", "key": vecs[0].Key, "frames": frames})

	// the rule is about timestamps, not about when the frames arrive: the newest alphabet frame, 10.6 s of silence on the
	// transport, then frames that are too old (and one that is not) - in the background while the histories run
	var pacedRes []ResJ
	var pacedData []byte
	pacedDone := make(chan struct{})
	go func() {
		defer close(pacedDone)
		newest := alpha[len(alpha)-4] // 2^47: far above the small ones, below the top ones
		pacedData = append(append(append(append([]byte{}, newest...), alpha[0]...), alpha[3]...), newest...)
		pacedRes = runStream(pacedData, -1, "eof", nil, false, streamCfg{key: key, pauseAt: len(newest), pause: 10600 * time.Millisecond, bufSize: 512})
	}()
	// a long run of correctly signed frames that are all too old, with strictly growing timestamps 1, 2, 3, ... (a recorded
	// session replayed later): every one of them is refused, however many there are; then a current frame is accepted.
	// The frames are signed by the harness (crypto/sha256); the monitor verifies every signature with its own SHA-256.
	nOld := 300
	if thorough {
		nOld = 1200
	}
	long := append([]byte{}, alpha[len(alpha)-4]...)
	for i := 1; i <= nOld; i++ {
		j := FrameJ{V: 2, IFlag: 1, Seq: i % 256, Sys: 4, Comp: 190, ID: 30003, Payload: B{byte(i), byte(i >> 8), 7}, Ck: 4660, Link: 51,
			Ts: le(uint64(i), 6), Sig: B{0, 0, 0, 0, 0, 0}}
		b := frameBytes(j)
		h := sha256.New()
		h.Write(vecs[0].Key)
		h.Write(b[:len(b)-6])
		copy(b[len(b)-6:], h.Sum(nil)[:6])
		long = append(long, b...)
	}
	long = append(long, alpha[len(alpha)-4]...)
	longRes := runStream(long, -1, "eof", []int{977}, false, streamCfg{key: key, bufSize: 512})
	// the window is a matter of signature timestamps alone, whatever the frames carry: a frame of message id X whose
	// payload is full of plausible timestamps 30 s ahead (little-endian, 8-byte aligned), then frames 5 s older, equal and
	// newer than its signature timestamp - all four are accepted. X over ids with a meaning for signing or framing
	// (256 SETUP_SIGNING, 0, 255/256/257, 65535/65536, 2^24-1) and seeded others; thorough: every id of every shipped dialect
	sign := func(j FrameJ) []byte {
		b := frameBytes(j)
		h := sha256.New()
		h.Write(vecs[0].Key)
		h.Write(b[:len(b)-6])
		copy(b[len(b)-6:], h.Sum(nil)[:6])
		return b
	}
	ids := []int{0, 1, 66, 255, 256, 257, 65535, 65536, 0xFFFFFF}
	for i := 0; i < 6; i++ {
		ids = append(ids, r.Intn(1<<24))
	}
	if thorough {
		seen := map[int]bool{}
		for _, m := range allProtos() {
			if !seen[int(m.GetID())] {
				seen[int(m.GetID())] = true
				ids = append(ids, int(m.GetID()))
			}
		}
	}
	type contentRun struct {
		id   int
		data []byte
		res  []ResJ
	}
	var contentRuns []contentRun
	for n, id := range ids {
		t0 := uint64(1)<<40 + uint64(n)*7
		ahead := le(t0+3000000, 8)
		var pl B
		for k := 0; k < 1+n%4; k++ {
			pl = append(pl, ahead...)
		}
		mk := func(id int, pl B, ts uint64, seq int) []byte {
			return sign(FrameJ{V: 2, IFlag: 1, Seq: seq, Sys: 4, Comp: 190, ID: id, Payload: pl, Ck: 4660, Link: 52, Ts: le(ts, 6), Sig: B{0, 0, 0, 0, 0, 0}})
		}
		var data []byte
		data = append(data, mk(id, pl, t0, 1)...)
		data = append(data, mk(30003, B{1, 2, 3}, t0-500000, 2)...)
		data = append(data, mk(30003, B{1, 2, 4}, t0, 3)...)
		data = append(data, mk(id, pl, t0+1, 4)...)
		contentRuns = append(contentRuns, contentRun{id, data, runStream(data, -1, "eof", []int{61}, false, streamCfg{key: key, bufSize: 512})})
	}
	// the rule knows no clock: histories over timestamps placed around the machine's own wall clock (now, 5 s before and
	// after it, an hour and a day off, 2^47) - every pair, and seeded triples
	nowTicks := uint64(time.Since(time.Date(2015, 1, 1, 0, 0, 0, 0, time.UTC)) / (10 * time.Microsecond))
	around := []uint64{nowTicks, nowTicks - 500000, nowTicks + 500000, nowTicks + 360000000, nowTicks - 8640000000, 1 << 47, nowTicks - 1500000}
	mkAt := func(ts uint64, seq int) []byte {
		return sign(FrameJ{V: 2, IFlag: 1, Seq: seq % 256, Sys: 4, Comp: 190, ID: 30003, Payload: B{byte(seq), 2, 3}, Ck: 4660, Link: 53, Ts: le(ts, 6), Sig: B{0, 0, 0, 0, 0, 0}})
	}
	addClock := func(h []int) {
		var data []byte
		for i, a := range h {
			data = append(data, mkAt(around[a], i+1)...)
		}
		contentRuns = append(contentRuns, contentRun{-1, data, runStream(data, -1, "eof", []int{97}, false, streamCfg{key: key, bufSize: 512})})
	}
	for a := range around {
		for b := range around {
			addClock([]int{a, b})
		}
	}
	for i := 0; i < 30; i++ {
		addClock([]int{r.Intn(len(around)), r.Intn(len(around)), r.Intn(len(around))})
	}
	defer func() {
		<-pacedDone
		for n, c := range contentRuns {
			rec.Put(M{"e": "STREAM", "g": 1<<30 + 2 + n, "in": B(c.data), "errat": -1, "errkind": "eof", "sched": []int{61}, "with_data": false,
				"dl": []int{}, "key": vecs[0].Key, "results": c.res, "clean": false, "tag": map[bool]string{true: "win_around_the_wall_clock", false: "win_whatever_the_frames_carry"}[c.id < 0], "complete": true, "buf": 512})
		}
		rec.Put(M{"e": "STREAM", "g": 1<<30 + 1, "in": B(long), "errat": -1, "errkind": "eof", "sched": []int{977}, "with_data": false,
			"dl": []int{}, "key": vecs[0].Key, "results": longRes, "clean": false, "tag": "win_long_run_of_old_frames", "complete": true, "buf": 512})
		rec.Put(M{"e": "STREAM", "g": 1 << 30, "in": B(pacedData), "errat": -1, "errkind": "eof", "sched": []int{}, "with_data": false,
			"dl": []int{}, "key": vecs[0].Key, "results": pacedRes, "clean": false, "tag": "win_paced", "complete": true, "buf": 512})
		rec.Close()
	}()

	run := func(hist []int) {
		var data []byte
		for _, h := range hist {
			data = append(data, alpha[h-1]...)
		}
		res := runStream(data, -1, "eof", nil, false, streamCfg{key: key})
		acc := []bool{}
		pan := false
		for _, x := range res {
			switch x.K {
			case "frame":
				acc = append(acc, true)
			case "perr":
				acc = append(acc, false)
			case "panic":
				pan = true
			}
		}
		rec.Put(M{"e": "WINHIST", "hist": hist, "acc": acc, "panic": pan})
	}
	n := len(alpha)
	depth := 3
	if thorough {
		depth = 4
	}
	if o.n > 0 {
		depth = o.n
	}
	// all histories of the given depth
	hist := make([]int, depth)
	var walk func(k int)
	walk = func(k int) {
		if k == depth {
			run(append([]int{}, hist...))
			return
		}
		for a := 1; a <= n; a++ {
			hist[k] = a
			walk(k + 1)
		}
	}
	walk(0)
	// random deeper ones
	nr := 200
	if thorough {
		nr = 5000
	}
	for i := 0; i < nr; i++ {
		h := make([]int, 4+r.Intn(9))
		for k := range h {
			h[k] = 1 + r.Intn(n)
		}
		run(h)
	}
}
