package main

import (
	"bufio"
	"bytes"
	"context"
	"encoding/json"
	"errors"
	"fmt"
	"io"
	"net"
	"os"
	"runtime"
	"strings"
	"sync"
	"sync/atomic"
	"time"

	"github.com/bluenviron/gomavlib/v3"
	"github.com/bluenviron/gomavlib/v3/pkg/dialect"
	"github.com/bluenviron/gomavlib/v3/pkg/dialects/common"
	"github.com/bluenviron/gomavlib/v3/pkg/frame"
	"github.com/bluenviron/gomavlib/v3/pkg/message"
)

func init() { cmds["node"] = cmdNode }

// ---------------------------------------------------------------- scenario

type ScConf struct {
	Version      int     `json:"version"`
	Sys          int     `json:"sys"`
	Comp         int     `json:"comp"`
	Dialect      string  `json:"dialect"` // common | none | nohb | no66 | fakehb
	InKey        B       `json:"inkey"`
	OutKey       B       `json:"outkey"`
	HbDisable    bool    `json:"hb_disable"`
	HbPeriodMs   int     `json:"hb_period_ms"`
	HbSysType    int     `json:"hb_systype"`
	HbAutopilot  int     `json:"hb_autopilot"`
	SrEnable     bool    `json:"sr_enable"`
	SrFreq       int     `json:"sr_freq"`
	IdleMs       int     `json:"idle_ms"`
	ReadMs       int     `json:"read_ms"`
	WriteMs      int     `json:"write_ms"`
	ReconnectMs  int     `json:"reconnect_ms"`
	ExpectInit   string  `json:"expect_init"` // "" | "fail"
	IdleSilent   [][]int `json:"idle_silent"`
	IdleActive   [][]int `json:"idle_active"`
	SkipHbRate   bool    `json:"skip_hb_rate"`
	RetryInit    bool    `json:"retry_init"`     // a first Initialize fails at a last, extra endpoint (busy port); Initialize is then called again on the SAME Node value without it
	LegacyCtor   bool    `json:"legacy_ctor"`    // the node is made by the deprecated NewNode(NodeConf) instead of Node.Initialize
	ReuseMsgs    bool    `json:"reuse_msgs"`     // writer goroutines reuse one message struct, changing it between calls
	MuteWire     bool    `json:"mute_wire"`      // custom transports do not record what is written to them (scenarios judged on events alone)
	SrEventsOnly bool    `json:"sr_events_only"` // stream requests are judged on the stream-requested events alone (the wire is muted / may overflow)
	SecondLife   bool    `json:"second_life"`    // after Close the SAME Node value is initialized once more and closed again
	Sid          int     `json:"sid"`
}

type ScEndpoint struct {
	Kind        string  `json:"kind"` // custom | tcp_server | udp_server | tcp_client | udp_client | udp_broadcast | serial | bad_address | busy_port
	SerialFails int     `json:"serial_fails"`
	Host        string  `json:"host"`          // tcp_client: the endpoint is configured with this domain name (resolved by the harness's DNS)
	LMode       string  `json:"lmode"`         // tcp_client: initial behaviour of the fake server (accept | refuse | accept_close)
	Drain       bool    `json:"drain"`         // custom: data queued before Close is still readable after Close (like a pipe)
	DNS         string  `json:"dns"`           // tcp_client with host: what the name resolves to at first ("ip1,ip2": several A records), default 127.0.0.1
	BcastPort   *string `json:"bcast_port"`    // udp_broadcast: the port part of BroadcastAddress as written by the user ("abc", "", "0", "70000", ...)
	ErrWithData bool    `json:"err_with_data"` // custom: an injected read error is returned together with the last bytes (n > 0, err != nil)
}

type ScItem struct {
	Kind      string `json:"kind"` // valid | badck | badsig | unsigned | junk | hb | v1
	Tag       int    `json:"tag"`
	Sys       int    `json:"sys"`
	Comp      int    `json:"comp"`
	Autopilot int    `json:"autopilot"`
	N         int    `json:"n"`
	Mute      bool   `json:"mute"`      // part of the environment, not of the judged history: neither the feed nor the events of this sender (ep, sys, comp) are recorded
	TsBackS   int    `json:"ts_back_s"` // keyed input: the sender's clock is this many seconds behind the harness's
}

type ScStep struct {
	Op      string        `json:"op"`
	Ep      int           `json:"ep"`
	Peer    int           `json:"peer"`
	Inst    int           `json:"inst"`
	Item    *ScItem       `json:"item"`
	Chunks  []int         `json:"chunks"`
	Mode    string        `json:"mode"`
	At      int           `json:"at"`
	Run     bool          `json:"run"`
	G       int           `json:"g"`
	Kind    string        `json:"kind"`
	Target  string        `json:"target"` // "" | "ep" | "foreign" | "nil"
	Tag     int           `json:"tag"`
	Raw     bool          `json:"raw"`
	Err     string        `json:"err"` // twrite_mode: what the failing write returns: "" (plain) | deadline | eof | closed_pipe | net_timeout
	Bad     string        `json:"bad"` // "" | id_outside | v1_big | no_dialect_msg
	Point   string        `json:"point"`
	Ms      int           `json:"ms"`
	From    string        `json:"from"`
	N       int           `json:"n"`
	Sync    bool          `json:"sync"`
	Items   []ScBurstItem `json:"items"`
	Foreign bool          `json:"foreign"` // write (Frame kinds): a forwarded, already encoded frame whose message id the node's dialect does not contain
	AtMs    int           `json:"at_ms"`   // burst: handed to the transports this long after Initialize returned (0: at once)
	NoRead  bool          `json:"noread"`  // peer_connect: the peer sends but never reads what the node writes to it
}

// ScBurstItem: one item of a burst (all items are recorded first, then handed to the transports by one goroutine
// per endpoint concurrently, without touching the recorder - the recorder's mutex must not order the readers)
type ScBurstItem struct {
	Ep   int     `json:"ep"`
	Item *ScItem `json:"item"`
}

type Scenario struct {
	Name      string       `json:"name"`
	Conf      ScConf       `json:"conf"`
	Endpoints []ScEndpoint `json:"endpoints"`
	Steps     []ScStep     `json:"steps"`
}

// ---------------------------------------------------------------- fake transport

var errInjected = errors.New("verif: injected read error")
var errWriteInjected = errors.New("verif: injected write error")
var errClosedT = errors.New("verif: transport closed")

type ctlRWC struct {
	p           *player
	ep          int
	mu          sync.Mutex
	cond        *sync.Cond
	inq         [][]byte
	rerr        []error // one-shot read errors, delivered after the data queued before them
	rerrAt      []int   // number of chunks that must be consumed first
	taken       int
	closed      bool
	closes      int
	wmode       string
	wcount      int
	failAt      int
	drain       bool // queued data stays readable after Close
	errWithData bool
	failUntil   int // writes up to this call number fail ("failn" mode)
	partial     bool
	failErr     error // what a failing Write returns (nil: a plain error)
	okCnt       int64 // completed writes (pacing only)
	sick        bool  // a write was blocked or failed: excluded from pacing
}

func newCtl(p *player, ep int) *ctlRWC {
	c := &ctlRWC{p: p, ep: ep, wmode: "ok"}
	c.cond = sync.NewCond(&c.mu)
	return c
}

func (c *ctlRWC) Read(b []byte) (int, error) {
	c.mu.Lock()
	defer c.mu.Unlock()
	for {
		if c.closed && !(c.drain && len(c.inq) > 0) {
			return 0, errClosedT
		}
		if len(c.rerr) > 0 && c.rerrAt[0] <= c.taken {
			err := c.rerr[0]
			c.rerr, c.rerrAt = c.rerr[1:], c.rerrAt[1:]
			return 0, err
		}
		if len(c.inq) > 0 {
			ch := c.inq[0]
			n := copy(b, ch)
			if n < len(ch) {
				c.inq[0] = ch[n:]
			} else {
				c.inq = c.inq[1:]
				c.taken++
			}
			if c.errWithData && len(c.rerr) > 0 && c.rerrAt[0] <= c.taken {
				// io.Reader allows the last bytes and the error in one call
				err := c.rerr[0]
				c.rerr, c.rerrAt = c.rerr[1:], c.rerrAt[1:]
				return n, err
			}
			return n, nil
		}
		c.cond.Wait()
	}
}

func (c *ctlRWC) feed(chunks [][]byte) {
	c.mu.Lock()
	c.inq = append(c.inq, chunks...)
	c.mu.Unlock()
	c.cond.Broadcast()
}

func (c *ctlRWC) injectReadErr(err error) {
	c.mu.Lock()
	c.rerr = append(c.rerr, err)
	c.rerrAt = append(c.rerrAt, c.taken+len(c.inq))
	c.mu.Unlock()
	c.cond.Broadcast()
}

func (c *ctlRWC) setMode(mode string, at int) {
	c.mu.Lock()
	c.wmode = mode
	c.failAt = 0
	// "fail_partial" / "failn_partial": the failing Write reports that it took part of the frame (0 < n < len), as a
	// deadline expiring on a nearly full socket buffer does
	c.partial = strings.HasSuffix(mode, "_partial")
	mode = strings.TrimSuffix(mode, "_partial")
	if c.partial {
		c.wmode = mode
	}
	if mode == "fail" {
		c.failAt = c.wcount + at
		c.wmode = "ok"
	}
	if mode == "failn" {
		c.failUntil = c.wcount + at
		c.wmode = "ok"
	}
	if mode == "block" && at > 0 {
		c.failAt = -(c.wcount + at) // negative: block from that call on
		c.wmode = "ok"
	}
	c.mu.Unlock()
	c.cond.Broadcast()
}

func (c *ctlRWC) Write(b []byte) (int, error) {
	c.mu.Lock()
	c.wcount++
	k := c.wcount
	if c.failAt < 0 && k >= -c.failAt {
		c.wmode = "block"
		c.failAt = 0
	}
	if (c.failAt > 0 && k == c.failAt) || k <= c.failUntil {
		c.sick = true
		c.mu.Unlock()
		took := 0
		if c.partial && len(b) > 1 {
			took = 1 + len(b)/3
		}
		c.p.rec.Put(M{"e": "TWFail", "ep": c.ep, "n": len(b), "closed": false, "took": took, "t": c.p.ms()})
		werr := c.failErr
		if werr == nil {
			werr = errWriteInjected
		}
		return took, werr
	}
	if c.wmode == "block" {
		c.sick = true
		c.p.rec.Put(M{"e": "TWBlocked", "ep": c.ep, "t": c.p.ms()})
	}
	for c.wmode == "block" && !c.closed {
		c.cond.Wait()
	}
	if c.closed {
		c.mu.Unlock()
		c.p.rec.Put(M{"e": "TWFail", "ep": c.ep, "n": len(b), "closed": true, "t": c.p.ms()})
		return 0, errClosedT
	}
	// record under the transport lock so that the order of TW records is the order on the wire
	if !c.p.sc.Conf.MuteWire {
		c.p.rec.Put(M{"e": "TW", "ep": c.ep, "peer": 0, "bytes": B(append([]byte{}, b...)), "t": c.p.ms()})
	}
	c.okCnt++
	c.p.touch()
	c.mu.Unlock()
	return len(b), nil
}

func (c *ctlRWC) Close() error {
	c.mu.Lock()
	c.closed = true
	c.closes++
	c.mu.Unlock()
	c.cond.Broadcast()
	return nil
}

// ---------------------------------------------------------------- player

type gate struct {
	held    bool
	waiting int
	ch      chan struct{}
}

type player struct {
	sc     Scenario
	rec    *Rec
	t0     time.Time
	initAt time.Time       // when Initialize returned
	muted  map[[3]int]bool // senders (ep, sys, comp) whose feeds and events are not recorded
	node   *gomavlib.Node
	ctls   map[int]*ctlRWC
	addrs  map[int]string

	mu              sync.Mutex
	insts           map[*gomavlib.Channel]int    // channel pointer -> instance number (per endpoint)
	instEp          map[*gomavlib.Channel]int    // channel pointer -> endpoint
	byInst          map[[2]int]*gomavlib.Channel // (ep, inst) -> channel
	nInst           map[int]int
	opened          map[[2]int]bool
	closedEv        map[[2]int]bool
	gates           map[string]*gate
	consumerOn      bool
	consCond        *sync.Cond
	pauseReq        chan struct{} // rendezvous: the consumer has left its receive when a pause is recorded
	evClosed        chan struct{}
	closeFromLoopOn int // tag: consumer calls Close when it receives the frame with this tag (0 = never)
	closeOnce       sync.Once
	closeStarted    bool
	closeDone       chan struct{}

	writers map[int]chan func()
	wwg     sync.WaitGroup
	callSeq int64

	peers           map[[2]int]net.Conn
	listeners       map[int]net.Listener // fake servers for client endpoints
	hangFds         map[int]int          // raw listening sockets whose accept queue is kept full: connects to them hang
	hangConns       map[int][]net.Conn
	lmode           map[int]string
	serialFailsLeft map[int]int
	peerSeq         map[int]int
	peerEnded       map[[2]int]bool
	kept            []keptFrame                   // frames delivered in events (consumer goroutine only until the scenario is over)
	nodeA           atomic.Pointer[gomavlib.Node] // what the hooks see (unset while the deprecated constructor is still running)
	waitFailed      int32                         // a wait of the script has timed out (recorded as Timeout): what follows may find things missing
	dnsIP           atomic.Value                  // string: what the harness's DNS server answers for A queries
	listeners2      map[int]net.Listener          // tcp_client with a host name: the second address (127.0.0.2) the name can point to
	pktConns        map[int]net.PacketConn        // fake UDP server of a udp_client endpoint / listener of a udp_broadcast endpoint
	udpSrc          map[string]int                // udp_client: source address of the node's socket -> channel instance
	serials         []*ctlRWC
	lastAct         int64
	lastActTick     int64 // canary tick at the last activity
	ticks           int64 // canary ticks
	reuse           map[int]*common.MessageNamedValueInt
	expect          map[int]int64 // frames the harness expects on each custom endpoint (pacing only, never a verdict)
}

func (p *player) ms() int { return int(time.Since(p.t0) / time.Millisecond) }

func (p *player) touch() {
	atomic.StoreInt64(&p.lastAct, time.Now().UnixNano())
	atomic.StoreInt64(&p.lastActTick, atomic.LoadInt64(&p.ticks))
}

// canary: "nothing moved for a while" must not be concluded from the wall clock alone - on a machine so busy that this
// process does not run for tens of milliseconds, nothing moves because nothing runs. The canary ticks once per millisecond
// of its own sleeping and waking: a quiet interval is counted in its ticks, during each of which the scheduler has had the
// chance to run whatever else was runnable in this process.
func (p *player) canary() {
	for {
		time.Sleep(time.Millisecond)
		atomic.AddInt64(&p.ticks, 1)
		runtime.Gosched()
	}
}

func gateKey(point string, ep int) string { return fmt.Sprintf("%s@%d", point, ep) }

func (p *player) hook(point string, ch *gomavlib.Channel) {
	ep := -1
	if n := p.nodeA.Load(); ch != nil && n != nil {
		ep = gomavlib.VerifChannelEndpointIndex(n, ch)
	}
	p.mu.Lock()
	g := p.gates[gateKey(point, ep)]
	if g == nil {
		g = p.gates[gateKey(point, -2)] // any endpoint
	}
	if g == nil || !g.held {
		p.mu.Unlock()
		return
	}
	g.waiting++
	c := g.ch
	p.mu.Unlock()
	p.rec.Put(M{"e": "Held", "point": point, "ep": ep, "t": p.ms()})
	<-c
}

func (p *player) setGate(point string, ep int, hold bool) {
	p.mu.Lock()
	defer p.mu.Unlock()
	k := gateKey(point, ep)
	g := p.gates[k]
	if hold {
		if g == nil || !g.held {
			p.gates[k] = &gate{held: true, ch: make(chan struct{})}
		}
		return
	}
	if g != nil && g.held {
		g.held = false
		close(g.ch)
	}
}

func (p *player) releaseAll() {
	p.mu.Lock()
	for _, g := range p.gates {
		if g.held {
			g.held = false
			close(g.ch)
		}
	}
	p.mu.Unlock()
}

func (p *player) waitHeld(point string, ep int, bound time.Duration) bool {
	dl := time.Now().Add(bound)
	for time.Now().Before(dl) {
		p.mu.Lock()
		g := p.gates[gateKey(point, ep)]
		ok := g != nil && g.waiting > 0
		p.mu.Unlock()
		if ok {
			return true
		}
		time.Sleep(time.Millisecond)
	}
	return false
}

// ---------------------------------------------------------------- items

func tagMsg(tag, g int) *common.MessageNamedValueInt {
	return &common.MessageNamedValueInt{TimeBootMs: uint32(tag), Value: int32(g), Name: "x"}
}

var feedKey = frame.NewV2Key(bytes.Repeat([]byte{0x5A}, 32))

// itemBytes builds the bytes of an incoming item with the real writer (input generation).
var (
	itemRWOnce sync.Once
	itemRW     *dialect.ReadWriter
)

func (p *player) itemBytes(it *ScItem) []byte {
	itemRWOnce.Do(func() { itemRW = mustRW(common.Dialect) })
	drw := itemRW
	sink := &recWriter{}
	ver := frame.V2
	if it.Kind == "v1" {
		ver = frame.V1
	}
	var key *frame.V2Key
	if len(p.sc.Conf.InKey) > 0 && it.Kind != "unsigned" {
		key = frame.NewV2Key(p.sc.Conf.InKey)
		if it.Kind == "badsig" {
			key = feedKey
		}
	}
	sys, comp := it.Sys, it.Comp
	if sys == 0 {
		sys = 42
	}
	if comp == 0 {
		comp = 7
	}
	w := &frame.Writer{ByteWriter: sink, DialectRW: drw, OutVersion: ver, OutSystemID: byte(sys), OutComponentID: byte(comp),
		OutSignatureLinkID: 3, OutKey: key}
	w.Initialize()
	var m message.Message = tagMsg(it.Tag, 0)
	if it.Kind == "hb" {
		m = &common.MessageHeartbeat{Type: 1, Autopilot: common.MAV_AUTOPILOT(it.Autopilot), SystemStatus: 4, MavlinkVersion: 3,
			CustomMode: uint32(it.Tag)}
	}
	switch it.Kind {
	case "junk":
		n := it.N
		if n == 0 {
			n = 3
		}
		b := make([]byte, n)
		for i := range b {
			b[i] = byte(1 + (it.Tag+i)%200) // never 0xFE / 0xFD
		}
		return b
	}
	w.WriteMessage(m) //nolint:errcheck
	out := append([]byte{}, sink.buf.Bytes()...)
	if it.TsBackS != 0 && key != nil && ver == frame.V2 {
		// every sender has its own clock: the same frame, stamped and signed by a sender whose clock is behind
		rd := &frame.Reader{BufByteReader: bufio.NewReader(bytes.NewReader(out))}
		rd.Initialize() //nolint:errcheck
		fr, err := rd.Read()
		f2, ok := fr.(*frame.V2Frame)
		if err != nil || !ok {
			fatal("ts_back_s: cannot re-read the item: %v", err)
		}
		f2.SignatureTimestamp -= uint64(it.TsBackS) * 100000
		f2.Signature = f2.GenerateSignature(key)
		sink2 := &recWriter{}
		w2 := &frame.Writer{ByteWriter: sink2, OutVersion: frame.V2, OutSystemID: 1}
		if err := w2.Initialize(); err != nil {
			fatal("ts_back_s: %v", err)
		}
		if err := w2.WriteFrame(f2); err != nil {
			fatal("ts_back_s: %v", err)
		}
		out = append([]byte{}, sink2.buf.Bytes()...)
	}
	if it.Kind == "badck" {
		// complete frame with a wrong checksum
		ckpos := len(out) - 2
		if key != nil {
			ckpos = len(out) - 15
		}
		out[ckpos] ^= 0x55
	}
	return out
}

func chunked(b []byte, chunks []int) [][]byte {
	if len(chunks) == 0 {
		return [][]byte{b}
	}
	var out [][]byte
	i := 0
	for len(b) > 0 {
		k := chunks[i%len(chunks)]
		i++
		if k <= 0 || k > len(b) {
			k = len(b)
		}
		out = append(out, b[:k])
		b = b[k:]
	}
	return out
}

// ---------------------------------------------------------------- run

func (p *player) chanKey(ch *gomavlib.Channel) (ep, inst int) {
	p.mu.Lock()
	defer p.mu.Unlock()
	if i, ok := p.insts[ch]; ok {
		return p.instEp[ch], i
	}
	return gomavlib.VerifChannelEndpointIndex(p.node, ch), 0
}

func (p *player) peerOf(ch *gomavlib.Channel) int {
	// server endpoints: label is "tcp:127.0.0.1:port" of the peer's local address
	label := ch.String()
	p.mu.Lock()
	defer p.mu.Unlock()
	for k, c := range p.peers {
		if c != nil && strings.HasSuffix(label, c.LocalAddr().String()) {
			return k[1]
		}
	}
	return 0
}

func (p *player) consumer() {
	defer close(p.evClosed)
	for {
		p.mu.Lock()
		for !p.consumerOn {
			p.consCond.Wait()
		}
		p.mu.Unlock()
		var evt gomavlib.Event
		var ok bool
		select {
		case evt, ok = <-p.node.Events():
		case <-p.pauseReq:
			continue // back to the gate above: consumerOn is already false
		}
		if !ok {
			p.rec.Put(M{"e": "EvClosed", "t": p.ms()})
			return
		}
		p.touch()
		switch e := evt.(type) {
		case *gomavlib.EventChannelOpen:
			ep := gomavlib.VerifChannelEndpointIndex(p.node, e.Channel)
			p.mu.Lock()
			dup := false
			if _, seen := p.insts[e.Channel]; seen {
				dup = true
			} else {
				p.nInst[ep]++
				p.insts[e.Channel] = p.nInst[ep]
				p.instEp[e.Channel] = ep
				p.byInst[[2]int{ep, p.nInst[ep]}] = e.Channel
			}
			inst := p.insts[e.Channel]
			p.mu.Unlock()
			peer := 0
			if k := p.sc.Endpoints[ep].Kind; k == "tcp_server" || k == "udp_server" {
				// the peer's connection may not be registered yet when its open event arrives
				for i := 0; i < 400 && peer == 0; i++ {
					if peer = p.peerOf(e.Channel); peer == 0 {
						time.Sleep(500 * time.Microsecond)
					}
				}
			} else if k == "tcp_client" {
				// the k-th channel of a TCP client is the k-th connection the fake server accepted (a dial can return
				// before the server's Accept has: wait for the registration, the event is not held up for long)
				for i := 0; i < 400; i++ {
					p.mu.Lock()
					n := p.peerSeq[ep]
					p.mu.Unlock()
					if n >= inst {
						break
					}
					time.Sleep(500 * time.Microsecond)
				}
				peer = inst
			} else if k == "udp_client" {
				peer = inst
			} else if k == "udp_broadcast" {
				peer = 1
			}
			p.rec.Put(M{"e": "Ev", "type": "open", "ep": ep, "inst": inst, "dup": dup, "label": e.Channel.String(),
				"peer": peer, "t": p.ms()})
			// published to the scenario (wait_open) only now: a step that follows the wait must find the open event
			// recorded before anything it causes
			p.mu.Lock()
			p.opened[[2]int{ep, inst}] = true
			p.mu.Unlock()
		case *gomavlib.EventChannelClose:
			ep, inst := p.chanKey(e.Channel)
			cause := "nil"
			if e.Error != nil {
				cause = "other:" + e.Error.Error()
				switch {
				case errors.Is(e.Error, errInjected):
					cause = "injected"
				case errors.Is(e.Error, os.ErrDeadlineExceeded):
					cause = "deadline"
				case errors.Is(e.Error, io.ErrUnexpectedEOF):
					cause = "unexpected_eof"
				case errors.Is(e.Error, io.ErrClosedPipe):
					cause = "closed_pipe"
				case errors.Is(e.Error, net.ErrClosed):
					cause = "net_closed"
				case errors.Is(e.Error, errClosedT):
					cause = "closed"
				case errors.Is(e.Error, io.EOF):
					cause = "eof"
				case strings.Contains(e.Error.Error(), "timeout"):
					cause = "timeout"
				case strings.Contains(e.Error.Error(), "reset") || strings.Contains(e.Error.Error(), "closed"):
					cause = "netclosed"
				}
			}
			p.rec.Put(M{"e": "Ev", "type": "close", "ep": ep, "inst": inst, "cause": cause, "t": p.ms()})
			p.mu.Lock() // as for open: wait_close returns only once the record is there
			p.closedEv[[2]int{ep, inst}] = true
			p.mu.Unlock()
		case *gomavlib.EventFrame:
			ep, inst := p.chanKey(e.Channel)
			if p.isMuted(ep, int(e.SystemID()), int(e.ComponentID())) {
				continue
			}
			tag, id, ap := -1, int(e.Message().GetID()), -1
			switch m := e.Message().(type) {
			case *common.MessageNamedValueInt:
				tag = int(m.TimeBootMs)
			case *common.MessageHeartbeat:
				tag, ap = int(m.CustomMode), int(m.Autopilot)
			case *message.MessageRaw:
				if len(m.Payload) >= 4 {
					tag = int(m.Payload[0]) | int(m.Payload[1])<<8 | int(m.Payload[2])<<16 | int(m.Payload[3])<<24
				}
			}
			p.rec.Put(M{"e": "Ev", "type": "frame", "ep": ep, "inst": inst, "tag": tag, "id": id, "autopilot": ap,
				"sys": int(e.SystemID()), "comp": int(e.ComponentID()), "t": p.ms()})
			// what was delivered belongs to the application: it is looked at again when the scenario is over
			kf := keptFrame{fr: e.Frame, digest: frameDigest(e.Frame)}
			p.mu.Lock()
			if len(p.kept) < 4000 {
				p.kept = append(p.kept, kf)
			}
			p.mu.Unlock()
			if p.closeFromLoopOn != 0 && tag == p.closeFromLoopOn {
				p.doClose("event_loop")
			}
		case *gomavlib.EventParseError:
			ep, inst := p.chanKey(e.Channel)
			p.rec.Put(M{"e": "Ev", "type": "perr", "ep": ep, "inst": inst, "t": p.ms()})
		case *gomavlib.EventStreamRequested:
			ep, inst := p.chanKey(e.Channel)
			if p.isMuted(ep, int(e.SystemID), int(e.ComponentID)) {
				continue
			}
			p.rec.Put(M{"e": "Ev", "type": "streamreq", "ep": ep, "inst": inst, "sys": int(e.SystemID), "comp": int(e.ComponentID), "t": p.ms()})
		}
	}
}

func (p *player) isMuted(ep, sys, comp int) bool {
	p.mu.Lock()
	defer p.mu.Unlock()
	return p.muted[[3]int{ep, sys, comp}]
}

func (p *player) doClose(from string) {
	// a second caller must not wait for the first one (sync.Once would): if Close hangs, the player still has to finish
	p.mu.Lock()
	started := p.closeStarted
	p.closeStarted = true
	p.mu.Unlock()
	if started {
		return
	}
	p.closeOnce.Do(func() {
		p.rec.Put(M{"e": "CloseInv", "from": from, "t": p.ms()})
		// gates may only delay goroutines: shortly after Close is invoked every gate is released
		go func() {
			time.Sleep(150 * time.Millisecond)
			p.releaseAll()
		}()
		t := time.Now()
		p.node.Close()
		p.rec.Put(M{"e": "CloseRet", "ms": int(time.Since(t) / time.Millisecond), "t": p.ms()})
		close(p.closeDone)
	})
}

func (p *player) waitFor(bound time.Duration, what string, cond func() bool) bool {
	dl := time.Now().Add(bound)
	for {
		if cond() {
			return true
		}
		if time.Now().After(dl) {
			p.rec.Put(M{"e": "Timeout", "what": what, "t": p.ms()})
			atomic.StoreInt32(&p.waitFailed, 1)
			return false
		}
		time.Sleep(time.Millisecond)
	}
}

func (p *player) quiesce(idle, bound time.Duration) bool {
	dl := time.Now().Add(bound)
	for time.Now().Before(dl) {
		last := time.Unix(0, atomic.LoadInt64(&p.lastAct))
		quietTicks := atomic.LoadInt64(&p.ticks) - atomic.LoadInt64(&p.lastActTick)
		if time.Since(last) > idle && quietTicks > int64(idle/time.Millisecond) {
			return true
		}
		time.Sleep(2 * time.Millisecond)
	}
	return false
}

func freePort(network string) string {
	if network == "udp" {
		c, err := net.ListenPacket("udp4", "127.0.0.1:0")
		if err != nil {
			fatal("%v", err)
		}
		defer c.Close()
		return c.LocalAddr().String()
	}
	l, err := net.Listen("tcp4", "127.0.0.1:0")
	if err != nil {
		fatal("%v", err)
	}
	defer l.Close()
	return l.Addr().String()
}

func (p *player) dialectFor() *dialect.Dialect {
	switch p.sc.Conf.Dialect {
	case "none":
		return nil
	case "nohb": // no HEARTBEAT (id 0)
		var ms []message.Message
		for _, m := range common.Dialect.Messages {
			if m.GetID() != 0 {
				ms = append(ms, m)
			}
		}
		return &dialect.Dialect{Version: 3, Messages: ms}
	case "no66": // no REQUEST_DATA_STREAM
		var ms []message.Message
		for _, m := range common.Dialect.Messages {
			if m.GetID() != 66 {
				ms = append(ms, m)
			}
		}
		return &dialect.Dialect{Version: 3, Messages: ms}
	case "common_v0": // the messages of common in a dialect whose version is 0 (XML without <version>, hand-built dialect)
		return &dialect.Dialect{Version: 0, Messages: common.Dialect.Messages}
	case "common_rev": // the messages of common in reverse order of declaration (REQUEST_DATA_STREAM before HEARTBEAT)
		n := len(common.Dialect.Messages)
		ms := make([]message.Message, n)
		for i, m := range common.Dialect.Messages {
			ms[n-1-i] = m
		}
		return &dialect.Dialect{Version: 3, Messages: ms}
	case "common_sr_first": // REQUEST_DATA_STREAM first, HEARTBEAT last
		var ms []message.Message
		var hb message.Message
		for _, m := range common.Dialect.Messages {
			switch m.GetID() {
			case 66:
				ms = append([]message.Message{m}, ms...)
			case 0:
				hb = m
			default:
				ms = append(ms, m)
			}
		}
		return &dialect.Dialect{Version: 3, Messages: append(ms, hb)}
	case "fakehb": // id 0 is not the standard heartbeat
		ms := []message.Message{&MessageUserZero{}}
		for _, m := range common.Dialect.Messages {
			if m.GetID() != 0 {
				ms = append(ms, m)
			}
		}
		return &dialect.Dialect{Version: 3, Messages: ms}
	}
	return common.Dialect
}

// MessageUserZero occupies id 0 with a non-standard definition.
type MessageUserZero struct {
	Type           uint8
	Autopilot      uint8
	BaseMode       uint8
	CustomMode     uint32
	SystemStatus   uint8
	MavlinkVersion uint8
	Extra          uint8
}

func (*MessageUserZero) GetID() uint32 { return 0 }

func (p *player) acceptLoop(ep int, l net.Listener) {
	for {
		c, err := l.Accept()
		if err != nil {
			return
		}
		p.mu.Lock()
		mode := p.lmode[ep]
		p.peerSeq[ep]++
		n := p.peerSeq[ep]
		p.mu.Unlock()
		p.rec.Put(M{"e": "Attempt", "ep": ep, "n": n, "mode": mode, "probe": false, "t": p.ms()})
		switch mode {
		case "accept_close":
			c.Close()
		default:
			p.mu.Lock()
			p.peers[[2]int{ep, n}] = c
			p.mu.Unlock()
			go p.peerReader(ep, n, c)
		}
	}
}

var _ = runtime.NumGoroutine

type keptFrame struct {
	fr     frame.Frame
	digest string
}

// frameDigest renders everything a frame carries (header fields, message content, checksum, signature block).
func frameDigest(fr frame.Frame) (d string) {
	defer func() {
		if r := recover(); r != nil {
			d = fmt.Sprint("panic:", r)
		}
	}()
	s := fmt.Sprintf("%T sys=%d comp=%d id=%d msg=%+v", fr, fr.GetSystemID(), fr.GetComponentID(), fr.GetMessage().GetID(), fr.GetMessage())
	switch f := fr.(type) {
	case *frame.V1Frame:
		s += fmt.Sprintf(" seq=%d ck=%d", f.SequenceNumber, f.Checksum)
	case *frame.V2Frame:
		s += fmt.Sprintf(" seq=%d ck=%d if=%d cf=%d link=%d ts=%d", f.SequenceNumber, f.Checksum, f.IncompatibilityFlag,
			f.CompatibilityFlag, f.SignatureLinkID, f.SignatureTimestamp)
		if f.Signature != nil {
			s += fmt.Sprintf(" sig=%x", f.Signature[:])
		}
	}
	return s
}

// startDNS: a minimal DNS server on loopback that answers A queries for any name with the address in p.dnsIP (and AAAA
// queries with an empty answer); the process's default resolver is pointed at it.
func (p *player) startDNS() {
	pc, err := net.ListenPacket("udp4", "127.0.0.1:0")
	if err != nil {
		fatal("%v", err)
	}
	p.pktConns[-1] = pc
	addr := pc.LocalAddr().String()
	net.DefaultResolver = &net.Resolver{PreferGo: true, Dial: func(ctx context.Context, network, _ string) (net.Conn, error) {
		var d net.Dialer
		return d.DialContext(ctx, "udp4", addr)
	}}
	go func() {
		buf := make([]byte, 1500)
		for {
			n, src, err := pc.ReadFrom(buf)
			if err != nil {
				return
			}
			if n < 17 {
				continue
			}
			q := append([]byte{}, buf[:n]...)
			// end of the question: name labels, then type and class
			i := 12
			for i < n && q[i] != 0 {
				i += int(q[i]) + 1
			}
			if i+5 > n {
				continue
			}
			qtype := int(q[i+1])<<8 | int(q[i+2])
			qend := i + 5
			resp := append([]byte{}, q[:qend]...)
			resp[2], resp[3] = 0x81, 0x80 // response, recursion available, no error
			resp[6], resp[7], resp[8], resp[9], resp[10], resp[11] = 0, 0, 0, 0, 0, 0
			// one A record per address (a name may have several: "ip1,ip2", answered in that order)
			if qtype == 1 {
				for _, a := range strings.Split(p.dnsIP.Load().(string), ",") {
					if ip := net.ParseIP(a).To4(); ip != nil {
						resp[7]++
						resp = append(resp, 0xC0, 0x0C, 0, 1, 0, 1, 0, 0, 0, 0, 0, 4)
						resp = append(resp, ip...)
					}
				}
			}
			p.rec.Put(M{"e": "DNS", "qtype": qtype, "answer": p.dnsIP.Load().(string), "t": p.ms()})
			pc.WriteTo(resp, src) //nolint:errcheck
		}
	}()
}

// pktPeer lets the feed step write datagrams to the node through the fake server's own socket.
type pktPeer struct {
	pc net.PacketConn
	to net.Addr
}

func (k *pktPeer) Read([]byte) (int, error)         { return 0, io.EOF }
func (k *pktPeer) Write(b []byte) (int, error)      { return k.pc.WriteTo(b, k.to) }
func (k *pktPeer) Close() error                     { return nil }
func (k *pktPeer) LocalAddr() net.Addr              { return k.pc.LocalAddr() }
func (k *pktPeer) RemoteAddr() net.Addr             { return k.to }
func (k *pktPeer) SetDeadline(time.Time) error      { return nil }
func (k *pktPeer) SetReadDeadline(time.Time) error  { return nil }
func (k *pktPeer) SetWriteDeadline(time.Time) error { return nil }

// udpPeer records what the node sends to the fake UDP server (udp_client) or to the broadcast address.
// udp_client: each re-opened channel dials from a new source port; a source seen for the first time belongs to the
// channel instance that is open then (scenarios write only after the open event was received). Anything else is
// recorded as Ambiguous and makes the run inconclusive, never a verdict.
func (p *player) udpPeer(ep int, pc net.PacketConn, broadcast bool) {
	buf := make([]byte, 4096)
	for {
		n, src, err := pc.ReadFrom(buf)
		if err != nil {
			return
		}
		peer := 1
		if !broadcast {
			key := fmt.Sprintf("%d/%s", ep, src.String())
			p.mu.Lock()
			var ok bool
			if peer, ok = p.udpSrc[key]; !ok {
				peer = p.nInst[ep]
				amb := peer == 0 || p.peers[[2]int{ep, peer}] != nil
				if !amb {
					p.udpSrc[key] = peer
					p.peers[[2]int{ep, peer}] = &pktPeer{pc: pc, to: src}
				}
				p.mu.Unlock()
				if amb {
					p.rec.Put(M{"e": "Ambiguous", "what": "datagram from a source that cannot be attributed to a channel instance", "ep": ep})
					continue
				}
			} else {
				p.mu.Unlock()
			}
		}
		p.touch()
		p.rec.Put(M{"e": "TW", "ep": ep, "peer": peer, "bytes": B(append([]byte{}, buf[:n]...)), "t": p.ms()})
	}
}

func (p *player) peerReader(ep, peer int, c net.Conn) {
	buf := make([]byte, 4096)
	for {
		n, err := c.Read(buf)
		if n > 0 {
			p.touch()
			p.rec.Put(M{"e": "TW", "ep": ep, "peer": peer, "bytes": B(append([]byte{}, buf[:n]...)), "t": p.ms()})
		}
		if err != nil {
			p.mu.Lock()
			p.peerEnded[[2]int{ep, peer}] = true
			p.mu.Unlock()
			p.rec.Put(M{"e": "PeerEnd", "ep": ep, "peer": peer, "t": p.ms()})
			return
		}
	}
}

// peerSilent: a peer that never reads while the node lives. What the node managed to push into the socket buffers is
// drained - unrecorded - once Close has returned, so that the end of the connection can still be observed.
func (p *player) peerSilent(ep, peer int, c net.Conn) {
	<-p.closeDone
	buf := make([]byte, 1<<16)
	for {
		if _, err := c.Read(buf); err != nil {
			p.mu.Lock()
			p.peerEnded[[2]int{ep, peer}] = true
			p.mu.Unlock()
			p.rec.Put(M{"e": "PeerEnd", "ep": ep, "peer": peer, "t": p.ms()})
			return
		}
	}
}

func cmdNode(o opts) {
	raw, err := os.ReadFile(o.vectors)
	if err != nil {
		fatal("%v", err)
	}
	var sc Scenario
	if err := json.Unmarshal(raw, &sc); err != nil {
		fatal("scenario: %v", err)
	}
	p := &player{sc: sc, rec: newRec(o.out), t0: time.Now(), ctls: map[int]*ctlRWC{}, addrs: map[int]string{},
		insts: map[*gomavlib.Channel]int{}, instEp: map[*gomavlib.Channel]int{}, byInst: map[[2]int]*gomavlib.Channel{},
		nInst: map[int]int{}, opened: map[[2]int]bool{}, closedEv: map[[2]int]bool{}, gates: map[string]*gate{},
		consumerOn: true, evClosed: make(chan struct{}), closeDone: make(chan struct{}), writers: map[int]chan func(){},
		peers: map[[2]int]net.Conn{}, listeners: map[int]net.Listener{}, lmode: map[int]string{}, serialFailsLeft: map[int]int{},
		listeners2: map[int]net.Listener{},
		peerSeq:    map[int]int{}, expect: map[int]int64{}, peerEnded: map[[2]int]bool{}, pktConns: map[int]net.PacketConn{}, udpSrc: map[string]int{},
		muted: map[[3]int]bool{}, reuse: map[int]*common.MessageNamedValueInt{}, hangFds: map[int]int{}, hangConns: map[int][]net.Conn{}}
	p.consCond = sync.NewCond(&p.mu)
	p.pauseReq = make(chan struct{})
	p.rec.Flush = true
	go p.canary()
	p.touch()
	defer func() {
		if r := recover(); r != nil {
			p.rec.Put(M{"e": "Panic", "where": "player", "msg": fmt.Sprint(r)})
			p.rec.Close()
			os.Exit(3)
		}
	}()
	p.run()
	p.rec.Close()
}
