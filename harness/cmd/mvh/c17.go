package main

import (
	"fmt"
	"reflect"
	"sort"
	"strings"
	"sync"
	"sync/atomic"

	inhouse "verif/harness/cmd/mvh/inhouse/common"

	"github.com/bluenviron/gomavlib/v3/pkg/dialect"
	"github.com/bluenviron/gomavlib/v3/pkg/message"
)

func init() { cmds["c17"] = cmdC17 }

// malformed message structs (C17: rejected at initialization, not at first use)
type BadNoPrefix struct{ A uint8 }

func (*BadNoPrefix) GetID() uint32 { return 60001 }

type MessageBadEnumKind struct {
	E uint32 `mavenum:"uint8"`
}

func (*MessageBadEnumKind) GetID() uint32 { return 60002 }

type MessageBadType struct {
	A bool
}

func (*MessageBadType) GetID() uint32 { return 60003 }

type MessageBadMavlen struct {
	S string `mavlen:"abc"`
}

func (*MessageBadMavlen) GetID() uint32 { return 60004 }

type MessageBadEnumWire struct {
	E uint64 `mavenum:"float32"`
}

func (*MessageBadEnumWire) GetID() uint32 { return 60005 }

type MessageBadEnumInt16 struct {
	E uint64 `mavenum:"int16"`
}

func (*MessageBadEnumInt16) GetID() uint32 { return 60007 }

type MessageBadEnumInt64 struct {
	E uint64 `mavenum:"int64"`
}

func (*MessageBadEnumInt64) GetID() uint32 { return 60008 }

type MessageBadEnumString struct {
	A uint8
	E [2]uint64 `mavenum:"string"`
}

func (*MessageBadEnumString) GetID() uint32 { return 60009 }

type MessageBadEnumUnknown struct {
	E uint64 `mavenum:"uint24"`
}

func (*MessageBadEnumUnknown) GetID() uint32 { return 60011 }

type MessageBadArrayElem struct {
	A [2]int
}

func (*MessageBadArrayElem) GetID() uint32 { return 60006 }

// fields of defined types without a mavenum tag: refused, or accepted and then encoded like their underlying type
type (
	Callsign string
	Flag     string
	Celsius  float32
	Counter  uint16
)

type MessageDefinedString struct {
	Mmsi     uint32
	Callsign Callsign `mavlen:"7"`
	Channel  uint8
}

func (*MessageDefinedString) GetID() uint32 { return 60021 }

type MessageDefinedChar struct {
	A    uint16
	Flag Flag
	B    uint8
}

func (*MessageDefinedChar) GetID() uint32 { return 60022 }

type MessageDefinedNumbers struct {
	T Celsius
	N [2]Counter
	Z uint8
}

func (*MessageDefinedNumbers) GetID() uint32 { return 60023 }

// MessageBadLate is malformed in its LAST field, after many good ones (the check of the struct takes a while)
type MessageBadLate struct {
	A1, A2, A3, A4, A5, A6, A7, A8         uint32
	B1, B2, B3, B4, B5, B6, B7, B8         float32
	C1, C2, C3, C4                         [4]uint16
	S1, S2                                 string `mavlen:"20"`
	D1, D2, D3, D4, D5, D6, D7, D8, D9, D0 int8
	Z                                      bool
}

func (*MessageBadLate) GetID() uint32 { return 60020 }

type MessageGoodOne struct{ A uint8 }

func (*MessageGoodOne) GetID() uint32 { return 60010 }

// duplicates in the part of the id space no shipped dialect uses (>= 2^16, the top id, just above 2^16)
type MessageDupHigh struct{ B uint16 }

func (*MessageDupHigh) GetID() uint32 { return 0x010005 } // same id as MessageUserHighId

type MessageDupTop struct{ C uint32 }

func (*MessageDupTop) GetID() uint32 { return 0xFFFFFF } // same id as MessageUserMaxId

type MessageDup65536A struct{ A uint8 }

func (*MessageDup65536A) GetID() uint32 { return 65536 }

type MessageDup65536B struct{ B uint8 }

func (*MessageDup65536B) GetID() uint32 { return 65536 }

type MessageGoodDup struct{ B uint16 }

func (*MessageGoodDup) GetID() uint32 { return 60010 } // same id as MessageGoodOne

func safeDialectInit(d *dialect.Dialect) (rw *dialect.ReadWriter, ok, pan bool) {
	defer func() {
		if r := recover(); r != nil {
			ok, pan = false, true
		}
	}()
	rw = &dialect.ReadWriter{Dialect: d}
	err := rw.Initialize()
	return rw, err == nil, false
}

// dialectRecord: Initialize, lookup of EVERY id in 0..2^24-1; per hit the id, the definition of the Go type the codec
// carries, the id that type reports and the CRC_EXTRA of the codec the dialect hands out.
func dialectRecord(rec *Rec, name string, d *dialect.Dialect, ix map[reflect.Type]int) {
	rw, ok, pan := safeDialectInit(d)
	hits := [][]int{}
	n := 0
	if ok {
		for id := uint32(0); id < 1<<24; id++ {
			n++
			if mrw := rw.GetMessage(id); mrw != nil {
				t := reflect.TypeOf(mrw.Message)
				hits = append(hits, []int{int(id), ix[t], int(mrw.Message.GetID()), int(mrw.CRCExtra())})
			}
		}
	}
	rec.Put(M{"e": "DIALECT", "name": name, "init_ok": ok, "panic": pan, "decl": dialectIndices(d, ix),
		"hits": hits, "nlookups": n, "version": d.Version})
}

// concurrentInits: several dialects initialised at the same instant, each by its own goroutine into its own ReadWriter
// (two nodes starting together); every codec is then looked up by its declared id (sweep "declared").
func concurrentInits(rec *Rec, ix map[reflect.Type]int) {
	names := []string{"common", "ardupilotmega", "minimal", "common", "all", "standard", "common", "development"}
	for round := 0; round < 6; round++ {
		type res struct {
			name string
			d    *dialect.Dialect
			rw   *dialect.ReadWriter
			ok   bool
			pan  bool
		}
		out := make([]res, len(names))
		start := make(chan struct{})
		var wg sync.WaitGroup
		for i, n := range names {
			wg.Add(1)
			go func(i int, n string) {
				defer wg.Done()
				d := findDialect(n)
				<-start
				rw, ok, pan := safeDialectInit(d)
				out[i] = res{n, d, rw, ok, pan}
			}(i, n)
		}
		close(start)
		wg.Wait()
		for i, r := range out {
			hits := [][]int{}
			if r.ok {
				for _, m := range r.d.Messages {
					if mrw := r.rw.GetMessage(m.GetID()); mrw != nil {
						hits = append(hits, []int{int(m.GetID()), ix[reflect.TypeOf(mrw.Message)], int(mrw.Message.GetID()), int(mrw.CRCExtra())})
					}
				}
			}
			rec.Put(M{"e": "DIALECT", "name": fmt.Sprintf("%s_concurrent_%d_%d", r.name, round, i), "init_ok": r.ok, "panic": r.pan,
				"decl": dialectIndices(r.d, ix), "hits": hits, "nlookups": len(r.d.Messages), "sweep": "declared", "version": r.d.Version})
		}
	}
}

// concurrentMalformed: the same malformed dialect initialised by four goroutines at the same instant, several rounds, each
// into its own ReadWriter: every one of them must be refused (DINIT records).
func concurrentMalformed(rec *Rec) {
	cases := []struct {
		name string
		msgs []message.Message
	}{
		{"unsupported_type", append(append([]message.Message{}, findDialect("common").Messages[:5]...), &MessageBadType{})},
		{"enum_wire_type_int16", []message.Message{&MessageGoodOne{}, &MessageBadEnumInt16{}}},
		{"duplicate_id", []message.Message{&MessageGoodOne{}, &MessageGoodDup{}}},
		{"malformed_in_its_last_field", []message.Message{&MessageGoodOne{}, &MessageBadLate{}}},
	}
	for _, c := range cases {
		var defs []DefJ
		for _, m := range c.msgs {
			defs = append(defs, defOf(m))
		}
		for round := 0; round < 120; round++ {
			oks := make([]bool, 4)
			pans := make([]bool, 4)
			start := make(chan struct{})
			var wg sync.WaitGroup
			for g := 0; g < 4; g++ {
				wg.Add(1)
				go func(g int) {
					defer wg.Done()
					<-start
					_, oks[g], pans[g] = safeDialectInit(&dialect.Dialect{Version: 3, Messages: c.msgs})
				}(g)
			}
			close(start)
			wg.Wait()
			for g := 0; g < 4; g++ {
				if oks[g] || pans[g] || round == 0 {
					rec.Put(M{"e": "DINIT", "case": "concurrent_" + c.name, "round": round, "goroutine": g, "defs": defs,
						"init_ok": oks[g], "panic": pans[g]})
				}
			}
		}
	}
}

var namesakeCase = []message.Message{&MessageGoodOne{}, &inhouse.MessageHeartbeat{}}

func cmdC17(o opts) {
	rec := newRec(o.out)
	protos := allProtos()
	ix := defIndex(protos)

	if o.aux == "userfirst" {
		// a fresh process in which the in-house namesake dialect is initialized BEFORE the shipped one
		var defs []DefJ
		for _, m := range namesakeCase {
			defs = append(defs, defOf(m))
		}
		_, ok, pan := safeDialectInit(&dialect.Dialect{Version: 3, Messages: namesakeCase})
		rec.Put(M{"e": "DINIT", "case": "malformed_namesake_of_shipped_message_first", "defs": defs, "init_ok": ok, "panic": pan})
		dialectRecord(rec, "inhouse_common_first", inhouse.Dialect, ix)
		dialectRecord(rec, "common_after_inhouse", findDialect("common"), ix)
		dialectRecord(rec, "minimal_after_inhouse", findDialect("minimal"), ix)
		rec.Close()
		return
	}

	// the shipped dialects are package variables shared by every node, reader and log of a process: the very first
	// initialisations of one such value come from four goroutines at the same instant, each into its own ReadWriter
	// (Initialize only reads the dialect) - every one of them succeeds, and the dialect is what it was (the records of
	// every shipped dialect below look at all of it)
	for _, nd := range shipped {
		if nd.Name != "common" && nd.Name != "ardupilotmega" && nd.Name != "all" && nd.Name != "development" {
			continue
		}
		var defs []DefJ
		for _, m := range nd.D.Messages {
			defs = append(defs, defOf(m))
		}
		type res struct{ ok, pan bool }
		out := make([]res, 4)
		var wg sync.WaitGroup
		var ready int32
		for g := range out {
			wg.Add(1)
			go func(g int) {
				defer wg.Done()
				atomic.AddInt32(&ready, 1)
				for atomic.LoadInt32(&ready) < int32(len(out)) {
				}
				_, out[g].ok, out[g].pan = safeDialectInit(nd.D)
			}(g)
		}
		wg.Wait()
		for g := range out {
			rec.Put(M{"e": "DINIT", "case": "first_initialisations_of_shipped_" + nd.Name + "_at_once", "goroutine": g, "defs": defs,
				"init_ok": out[g].ok, "panic": out[g].pan})
		}
	}
	// every shipped dialect
	for _, nd := range shipped {
		dialectRecord(rec, nd.Name, nd.D, ix)
	}
	concurrentInits(rec, ix)
	concurrentMalformed(rec)
	// an in-house dialect whose package and type names coincide with shipped ones (initialized after them)
	dialectRecord(rec, "inhouse_common_after_shipped", inhouse.Dialect, ix)

	// cross-dialect type identity: per (Go struct name, id) the distinct types
	type key struct {
		name string
		id   uint32
	}
	types := map[key]map[string]bool{}
	dials := map[key][]string{}
	var keys []key
	for _, nd := range shipped {
		for _, m := range nd.D.Messages {
			k := key{reflect.TypeOf(m).Elem().Name(), m.GetID()}
			if types[k] == nil {
				types[k] = map[string]bool{}
				keys = append(keys, k)
			}
			types[k][typeName(m)] = true
			dials[k] = append(dials[k], nd.Name)
		}
	}
	sort.Slice(keys, func(i, j int) bool {
		if keys[i].id != keys[j].id {
			return keys[i].id < keys[j].id
		}
		return keys[i].name < keys[j].name
	})
	for _, k := range keys {
		var ts []string
		for t := range types[k] {
			ts = append(ts, t)
		}
		sort.Strings(ts)
		rec.Put(M{"e": "XTYPE", "name": k.name, "id": int(k.id), "types": ts, "dialects": dials[k]})
	}

	// CRC_EXTRA of the messages of the standard dialects against the published table
	for i, p := range protos {
		rw, ok, _ := safeInit(p)
		if !ok {
			continue
		}
		pkg := reflect.TypeOf(p).Elem().PkgPath()
		const shippedPrefix = "github.com/bluenviron/gomavlib/v3/pkg/dialects/"
		std := strings.HasPrefix(pkg, shippedPrefix) && (strings.HasSuffix(pkg, "/common") || strings.HasSuffix(pkg, "/minimal") ||
			strings.HasSuffix(pkg, "/standard") || strings.HasSuffix(pkg, "/test"))
		rec.Put(M{"e": "GOLD", "d": i + 1, "crc": int(rw.CRCExtra()), "std": std})
	}

	// user dialects: subsets with injected duplicates / malformed structs
	com := findDialect("common")
	cases := []struct {
		name string
		msgs []message.Message
	}{
		{"good_pair", []message.Message{&MessageGoodOne{}, &MessageUserScalars{}}},
		{"duplicate_id", []message.Message{&MessageGoodOne{}, &MessageGoodDup{}}},
		{"duplicate_same_type", []message.Message{&MessageGoodOne{}, &MessageGoodOne{}}},
		{"duplicate_in_shipped_subset", append(append([]message.Message{}, com.Messages[:20]...), com.Messages[7])},
		{"shipped_subset", append([]message.Message{}, com.Messages[5:40]...)},
		{"no_message_prefix", []message.Message{&MessageGoodOne{}, &BadNoPrefix{}}},
		{"enum_not_uint64", []message.Message{&MessageBadEnumKind{}}},
		{"unsupported_type", []message.Message{&MessageGoodOne{}, &MessageBadType{}}},
		{"bad_mavlen", []message.Message{&MessageBadMavlen{}}},
		{"enum_wire_type_float", []message.Message{&MessageBadEnumWire{}}},
		{"unsupported_array_element", []message.Message{&MessageBadArrayElem{}, &MessageGoodOne{}}},
		{"enum_wire_type_int16", []message.Message{&MessageGoodOne{}, &MessageBadEnumInt16{}}},
		{"enum_wire_type_int64", []message.Message{&MessageBadEnumInt64{}}},
		{"enum_wire_type_string", []message.Message{&MessageBadEnumString{}}},
		{"enum_wire_type_unknown", []message.Message{&MessageBadEnumUnknown{}}},
		{"enum_wire_types_all_valid", []message.Message{&MessageUserEnums{}}},
		{"malformed_last_of_many", append(append([]message.Message{}, com.Messages[:30]...), &MessageBadType{})},
		{"empty", []message.Message{}},
		{"malformed_in_its_last_field", []message.Message{&MessageGoodOne{}, &MessageBadLate{}}},
		{"duplicate_id_above_16_bits", []message.Message{&MessageGoodOne{}, &MessageUserHighId{}, &MessageDupHigh{}}},
		{"duplicate_top_id", []message.Message{&MessageDupTop{}, &MessageGoodOne{}, &MessageUserMaxId{}}},
		{"duplicate_id_65536", []message.Message{&MessageDup65536A{}, &MessageDup65536B{}}},
		{"distinct_high_ids", []message.Message{&MessageUserHighId{}, &MessageUserHighId2{}, &MessageUserMaxId{}, &MessageDup65536A{}}},
		{"malformed_namesake_of_shipped_message", namesakeCase},
		{"namesakes_of_shipped_messages", inhouse.Good},
		{"defined_string_type", []message.Message{&MessageGoodOne{}, &MessageDefinedString{Mmsi: 0x01020304, Callsign: "IZ2ABC", Channel: 16}}},
		{"defined_char_type", []message.Message{&MessageDefinedChar{A: 0x1122, Flag: "Q", B: 9}}},
		{"defined_number_types", []message.Message{&MessageDefinedNumbers{T: 21.5, N: [2]Counter{7, 0x0102}, Z: 3}, &MessageGoodOne{}}},
	}
	for _, c := range cases {
		var defs []DefJ
		for _, m := range c.msgs {
			defs = append(defs, defOf(m))
		}
		if defs == nil {
			defs = []DefJ{}
		}
		drw, ok, pan := safeDialectInit(&dialect.Dialect{Version: 3, Messages: c.msgs})
		// first use: what the accepted dialect's codecs make of the messages as given (both versions)
		probes := []M{}
		if ok && !pan && drw != nil && strings.HasPrefix(c.name, "defined_") {
			for i, m := range c.msgs {
				if rwm := drw.GetMessage(m.GetID()); rwm != nil {
					for _, v2 := range []bool{true, false} {
						out, p2 := safeWrite(rwm, m, v2)
						probes = append(probes, M{"d": i + 1, "vals": valsOf(m), "v2": v2, "out": out, "panic": p2})
					}
				}
			}
		}
		rec.Put(M{"e": "DINIT", "case": c.name, "defs": defs, "init_ok": ok, "panic": pan, "probes": probes})
	}
	// one Dialect VALUE edited in place between initialisations (an application that assembles its dialect step by step,
	// a test that swaps a message): every Initialize judges the value as it is then - nothing remembered from an earlier
	// initialisation of the same pointer may stand in for it. Same number of messages at every step.
	shared := &dialect.Dialect{Version: 3, Messages: []message.Message{&MessageGoodOne{}, &MessageUserScalars{}}}
	for k, second := range []message.Message{&MessageUserScalars{}, &MessageGoodDup{}, &MessageBadType{}, &MessageUserScalars{},
		&MessageBadLate{}, &MessageUserHighId{}, &MessageGoodOne{}} {
		if k%2 == 1 {
			shared.Messages[1] = second
		} else {
			shared.Messages = []message.Message{shared.Messages[0], second}
		}
		defs := []DefJ{defOf(shared.Messages[0]), defOf(shared.Messages[1])}
		for rep := 0; rep < 2; rep++ {
			_, ok, pan := safeDialectInit(shared)
			rec.Put(M{"e": "DINIT", "case": fmt.Sprintf("one_value_edited_in_place_step_%d_init_%d", k, rep), "defs": defs,
				"init_ok": ok, "panic": pan, "probes": []M{}})
		}
	}
	rec.Close()
}
