package main

import (
	"fmt"
	"math/rand"
	"os"
	"sort"
	"strings"
	"sync"
	"sync/atomic"
	"time"
)

func init() { cmds["enums"] = cmdEnums }

type enumType struct {
	Name      string
	Bitmask   bool
	Marshal   func(v uint64) ([]byte, error)
	Unmarshal func(b []byte) (uint64, error)
	String    func(v uint64) string
}

type enumConst struct {
	Pkg, Enum, Name string
	Value           uint64
}

type enumAlias struct {
	Pkg, Name, TargetPkg, TargetName string
}

// enumDirty is what the destination of UnmarshalText holds before the call (0: a fresh variable)
var enumDirty uint64

// filled by zz_enums_gen.go
var (
	enumTypes   []enumType
	enumConsts  []enumConst
	enumAliases []enumAlias
)

// enumOthers: values converted to text between taking a MarshalText result and looking at it
var enumOthers []uint64

func safeMarshal(t enumType, v uint64) (text B, isErr, pan bool) {
	defer func() {
		if r := recover(); r != nil {
			pan = true
		}
	}()
	b, err := t.Marshal(v)
	// the text belongs to the caller: other values of the same type are converted before it is looked at
	for _, o := range enumOthers {
		if o != v {
			t.Marshal(o) //nolint:errcheck
			_ = t.String(o)
		}
	}
	text = B(append([]byte{}, b...))
	// ... and the caller may do with it what it likes (a scratch buffer it appends to, an in-place edit): the next
	// conversion of the same value gives the same text again
	for i := range b {
		b[i] = '#'
	}
	b2, err2 := t.Marshal(v)
	if err == nil && (err2 != nil || string(b2) != string(text)) {
		marshalAgainDiffers = true
	}
	return text, err != nil, false
}

// marshalAgainDiffers: converting the same value again, after the caller overwrote the first text, gave another text
var marshalAgainDiffers bool

func safeUnmarshal(t enumType, text []byte) (v uint64, isErr, pan bool) {
	defer func() {
		if r := recover(); r != nil {
			pan = true
		}
	}()
	v, err := t.Unmarshal(text)
	return v, err != nil, false
}

func probeEnum(t enumType, v uint64, of []int) M {
	marshalAgainDiffers = false
	text, merr, p1 := safeMarshal(t, v)
	againDiffers := marshalAgainDiffers
	enumDirty = 0
	back, uerr, p2 := safeUnmarshal(t, text)
	// the same text parsed into a variable that already holds another value (a reused message struct)
	enumDirty = ^v
	back2, uerr2, p3 := safeUnmarshal(t, text)
	enumDirty = 0
	str := ""
	func() {
		defer func() { recover() }()
		str = t.String(v)
	}()
	if of == nil {
		of = []int{}
	}
	return M{"v": le(v, 8), "text": text, "merr": merr, "back": le(back, 8), "uerr": uerr, "panic": p1 || p2 || p3, "str": B(str), "of": of,
		"back2": le(back2, 8), "uerr2": uerr2, "again_differs": againDiffers}
}

// cmdEnums: C19 (ENUM records) and the enum-constant table for C17 (XENUM records).
func cmdEnums(o opts) {
	rec := newRec(o.out)
	r := rand.New(rand.NewSource(o.seed))
	thorough := o.tier == "thorough"
	mode := o.aux // "c19" | "c17"

	byType := map[string][]enumConst{}
	for _, c := range enumConsts {
		k := c.Pkg + "." + c.Enum
		byType[k] = append(byType[k], c)
	}
	if mode == "c17" {
		// per constant name: which dialects define it with which value
		byName := map[string][]enumConst{}
		var names []string
		for _, c := range enumConsts {
			if _, ok := byName[c.Name]; !ok {
				names = append(names, c.Name)
			}
			byName[c.Name] = append(byName[c.Name], c)
		}
		sort.Strings(names)
		for _, n := range names {
			var occ []M
			for _, c := range byName[n] {
				occ = append(occ, M{"dialect": c.Pkg, "enum": c.Enum, "value": le(c.Value, 8)})
			}
			rec.Put(M{"e": "XENUM", "const": n, "occ": occ})
		}
		rec.Close()
		return
	}

	stride := 1 // the run on a 32-bit build probes every fourth type (VERIF_ENUM_STRIDE)
	if s := os.Getenv("VERIF_ENUM_STRIDE"); s != "" {
		fmt.Sscanf(s, "%d", &stride)
	}
	for i, t := range enumTypes {
		if stride > 1 && i%stride != int(o.seed)%stride {
			continue
		}
		rec.Put(enumRecord(t, byType[t.Name], r, thorough))
	}
	rec.Close()
}

// enumRecord probes one enum type (its defined constants cs) and returns the ENUM record.
func enumRecord(t enumType, cs []enumConst, r *rand.Rand, thorough bool) M {
	enumOthers = enumOthers[:0]
	var all uint64
	for i, c := range cs {
		all |= c.Value
		if i < 3 {
			enumOthers = append(enumOthers, c.Value)
		}
	}
	enumOthers = append(enumOthers, all, 0, 1<<40+12345)
	defer func() { enumOthers = nil }()
	nUnions, nUnnamed := 50, 50
	if thorough {
		nUnions, nUnnamed = 400, 400
	}
	var consts []M
	for _, c := range cs {
		consts = append(consts, M{"name": B(c.Name), "value": le(c.Value, 8)})
	}
	if consts == nil {
		consts = []M{}
	}
	// the very first conversions of this type in this process come from eight goroutines at the same instant (a type's
	// text tables may be built on first use): their texts are compared below with the ones obtained alone
	type firstText struct {
		v    uint64
		text string
		bad  bool
	}
	firsts := make([]firstText, 8)
	{
		var wg sync.WaitGroup
		// released by a spin barrier (a closed channel wakes its waiters one after the other, microseconds apart) and then
		// staggered by a few hundred nanoseconds each, so that some of them arrive while the first one is still at work
		var ready int32
		step := time.Duration(150+50*(len(cs)%7)) * time.Nanosecond
		for g := range firsts {
			v := all
			if !t.Bitmask && len(cs) > 0 {
				v = cs[g%len(cs)].Value
			} else if g%2 == 1 && len(cs) > 0 {
				v = cs[g%len(cs)].Value | cs[(g/2)%len(cs)].Value
			}
			firsts[g].v = v
			wg.Add(1)
			go func(g int) {
				defer wg.Done()
				defer func() {
					if recover() != nil {
						firsts[g].bad = true
					}
				}()
				atomic.AddInt32(&ready, 1)
				for atomic.LoadInt32(&ready) < int32(len(firsts)) {
				}
				for t0 := time.Now(); time.Since(t0) < time.Duration(g)*step; {
				}
				b, err := t.Marshal(firsts[g].v)
				firsts[g].text, firsts[g].bad = string(b), err != nil
			}(g)
		}
		wg.Wait()
	}
	var probes []M
	// every defined constant
	for i, c := range cs {
		probes = append(probes, probeEnum(t, c.Value, []int{i + 1}))
	}
	if t.Bitmask {
		probes = append(probes, probeEnum(t, 0, []int{}))
		// seeded unions of defined flags
		for k := 0; k < nUnions && len(cs) > 0; k++ {
			var of []int
			var v uint64
			for i, c := range cs {
				if r.Intn(2) == 0 || (k < 3 && i < 2) {
					of = append(of, i+1)
					v |= c.Value
				}
			}
			if k == 0 { // all flags
				of = of[:0]
				v = 0
				for i, c := range cs {
					of = append(of, i+1)
					v |= c.Value
				}
			}
			probes = append(probes, probeEnum(t, v, of))
		}
	} else {
		// unnamed values over the full uint64 range, boundaries
		vals := []uint64{0, 1, 1<<31 - 1, 1 << 31, 1<<32 - 1, 1 << 32, 1<<63 - 1, 1 << 63, 1<<64 - 1}
		for k := 0; k < nUnnamed; k++ {
			switch k % 3 {
			case 0:
				vals = append(vals, r.Uint64())
			case 1:
				vals = append(vals, uint64(r.Intn(70000)))
			default:
				vals = append(vals, r.Uint64()>>uint(r.Intn(64)))
			}
		}
		for _, v := range vals {
			probes = append(probes, probeEnum(t, v, nil))
		}
	}
	// junk texts: none is a name, a list of names or a numeral
	first := "X"
	if len(cs) > 0 {
		first = cs[0].Name
	}
	junks := []string{"", " ", "NOT_A_LABEL_zq", first + "_", "_" + first, first + " |", "| " + first, first + " | ",
		first + "|" + first, "12abc", "0x10", "1.5", "1e3", first + " | NOT_A_LABEL_zq", "--1", "\x00", first + "\n",
		" " + first, "٣", "1 2"}
	for k := 0; k < 3; k++ {
		junks = append(junks, string(rbytes(r, 1+r.Intn(12))))
	}
	// long lists: whatever stands behind the 64th (the 200th) separator is read like the rest
	for _, n := range []int{63, 64, 65, 200} {
		long := strings.Repeat(first+" | ", n)
		junks = append(junks, long+"NOT_A_LABEL_zq", long, long+"0x10", long+first+" ")
	}
	var junk []M
	for _, j := range junks {
		_, uerr, pan := safeUnmarshal(t, []byte(j))
		junk = append(junk, M{"text": B(j), "uerr": uerr, "panic": pan})
	}
	// the same conversions from four goroutines at once (values of one type converted by several goroutines, as when
	// messages are logged or JSON-encoded concurrently): every text equals the one obtained alone
	concDiff := 0
	for _, f := range firsts {
		b, err := t.Marshal(f.v)
		if (err != nil) != f.bad || (err == nil && string(b) != f.text) {
			concDiff++
		}
	}
	if len(probes) > 1 {
		type vt struct {
			v    uint64
			text string
		}
		var ref []vt
		for _, p := range probes {
			if !p["merr"].(bool) {
				ref = append(ref, vt{fromLE(p["v"].(B)), string(p["text"].(B))})
			}
		}
		var wg sync.WaitGroup
		var mu sync.Mutex
		for g := 0; g < 4; g++ {
			wg.Add(1)
			go func(g int) {
				defer wg.Done()
				defer func() {
					if x := recover(); x != nil {
						mu.Lock()
						concDiff++
						mu.Unlock()
					}
				}()
				d := 0
				for rep := 0; rep < 40; rep++ {
					for i := range ref {
						x := ref[(i+g*len(ref)/4)%len(ref)]
						b, err := t.Marshal(x.v)
						if err != nil || string(b) != x.text || t.String(x.v) != x.text {
							d++
						}
					}
				}
				mu.Lock()
				concDiff += d
				mu.Unlock()
			}(g)
		}
		wg.Wait()
	}
	return M{"e": "ENUM", "type": t.Name, "bitmask": t.Bitmask, "consts": consts, "probes": probes, "junk": junk, "conc_diff": concDiff}
}
