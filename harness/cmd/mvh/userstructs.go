package main

import "github.com/bluenviron/gomavlib/v3/pkg/message"

// User-defined message structs: shapes the shipped dialects may lack. Every primitive x
// {scalar, array} x {base, extension}, every permitted enum width x {scalar, array},
// names needing mavname, extensions after base fields.

type MessageUserScalars struct {
	A uint8
	B int64
	C float32
	D uint16
	E float64
	F int8
	G uint32
	H int16
	I uint64
	J int32
	K string `mavlen:"5"`
}

func (*MessageUserScalars) GetID() uint32 { return 61501 }

type MessageUserArrays struct {
	A [3]uint8
	B [2]int64
	C [2]float32
	D [3]uint16
	E [2]float64
	F [3]int8
	G [2]uint32
	H [3]int16
	I [2]uint64
	J [2]int32
	K string `mavlen:"1"`
}

func (*MessageUserArrays) GetID() uint32 { return 61502 }

type MessageUserExt struct {
	Base1 uint8
	Base2 uint32
	Base3 [2]uint16
	E1    uint8      `mavext:"true"`
	E2    float64    `mavext:"true"`
	E3    [2]uint16  `mavext:"true"`
	E4    string     `mavext:"true" mavlen:"4"`
	E5    int64      `mavext:"true"`
	E6    [3]float32 `mavext:"true"`
	E7    uint16     `mavext:"true"`
}

func (*MessageUserExt) GetID() uint32 { return 61503 }

type MessageUserEnums struct {
	E8    uint64    `mavenum:"uint8"`
	E16   uint64    `mavenum:"uint16"`
	E32   uint64    `mavenum:"uint32"`
	E64   uint64    `mavenum:"uint64"`
	Ei8   uint64    `mavenum:"int8"`
	Ei32  uint64    `mavenum:"int32"`
	A8    [3]uint64 `mavenum:"uint8"`
	A16   [2]uint64 `mavenum:"uint16"`
	A32   [2]uint64 `mavenum:"uint32"`
	Plain uint8
	X8    uint64    `mavenum:"uint8" mavext:"true"`
	X32   [2]uint64 `mavenum:"uint32" mavext:"true"`
}

func (*MessageUserEnums) GetID() uint32 { return 61504 }

type MessageUserNames struct {
	HTTPCode  uint16 `mavname:"HTTPCode"`
	Alt2Meter float32
	XYZ       uint8 `mavname:"xyz"`
	Snake2go  int32
	ID        uint8
}

func (*MessageUserNames) GetID() uint32 { return 61505 }

type MessageUserEmpty struct{}

func (*MessageUserEmpty) GetID() uint32 { return 61506 }

type MessageUserOneByte struct {
	V uint8
}

func (*MessageUserOneByte) GetID() uint32 { return 61507 }

type MessageUserBig struct {
	A [31]uint64
	B [7]uint8
}

func (*MessageUserBig) GetID() uint32 { return 61508 }

type MessageUserStrings struct {
	S1 string `mavlen:"1"`
	S2 string `mavlen:"16"`
	N  uint8
	S3 string `mavlen:"3" mavext:"true"`
}

func (*MessageUserStrings) GetID() uint32 { return 61509 }

// ids that need the third id byte (legal in MAVLink 2)
type MessageUserHighId struct {
	A uint16
	B [3]uint8
	C string `mavlen:"4"`
}

func (*MessageUserHighId) GetID() uint32 { return 0x010005 }

type MessageUserMaxId struct {
	V uint32
	W uint8 `mavext:"true"`
}

func (*MessageUserMaxId) GetID() uint32 { return 0xFFFFFF }

type MessageUserHighId2 struct {
	A uint16
	B [3]uint8
	C string `mavlen:"4"`
}

func (*MessageUserHighId2) GetID() uint32 { return 0x020005 } // differs from MessageUserHighId in the third id byte only

var userMessages = []message.Message{
	&MessageUserScalars{}, &MessageUserArrays{}, &MessageUserExt{}, &MessageUserEnums{},
	&MessageUserNames{}, &MessageUserEmpty{}, &MessageUserOneByte{}, &MessageUserBig{}, &MessageUserStrings{},
	&MessageUserHighId{}, &MessageUserMaxId{}, &MessageUserHighId2{},
}
