// mvh - conformance harness binding the TLA+ specifications in /verif/spec to
// the gomavlib implementation in /repo. It only generates inputs, drives the
// real code and records what it observes as ndjson; it never decides.
package main

import (
	"flag"
	"fmt"
	"os"
)

type opts struct {
	out     string
	seed    int64
	tier    string
	vectors string
	aux     string
	n       int
}

func parse(args []string) opts {
	var o opts
	fs := flag.NewFlagSet("mvh", flag.ExitOnError)
	fs.StringVar(&o.out, "out", "trace.ndjson", "output ndjson")
	fs.Int64Var(&o.seed, "seed", 1, "seed")
	fs.StringVar(&o.tier, "tier", "quick", "quick|thorough")
	fs.StringVar(&o.vectors, "vectors", "", "spec-generated vectors (ndjson)")
	fs.StringVar(&o.aux, "aux", "", "auxiliary output/input file")
	fs.IntVar(&o.n, "n", 0, "size override")
	fs.Parse(args)
	return o
}

var cmds = map[string]func(opts){}

func main() {
	if len(os.Args) < 2 {
		fmt.Fprintln(os.Stderr, "usage: mvh <cmd> [flags]")
		os.Exit(2)
	}
	f, ok := cmds[os.Args[1]]
	if !ok {
		fmt.Fprintf(os.Stderr, "unknown command %q\n", os.Args[1])
		os.Exit(2)
	}
	f(parse(os.Args[2:]))
}
