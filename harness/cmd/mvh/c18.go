package main

import (
	"bytes"
	"fmt"
	"math/bits"
	"math/rand"
	"net"
	"net/http"
	"os"
	"path/filepath"
	"reflect"
	"sort"
	"strings"
	"time"

	"github.com/bluenviron/gomavlib/v3/pkg/conversion"
	"github.com/bluenviron/gomavlib/v3/pkg/dialect"
)

func init() {
	cmds["c18gen"] = cmdC18Gen
	cmds["c18probe"] = cmdC18Probe
}

// ---- abstract syntax (names as character arrays for the spec)

type XEntry struct {
	Name B      `json:"name"`
	Text B      `json:"text"`
	V    uint64 `json:"-"` // the value Text denotes (grammar bookkeeping only)
}
type XEnum struct {
	Name    B        `json:"name"`
	Bitmask bool     `json:"bitmask"`
	Entries []XEntry `json:"entries"`
}
type XField struct {
	Name B      `json:"name"`
	Type string `json:"type"`
	Arr  int    `json:"arr"`
	Enum B      `json:"enum"`
	Ext  bool   `json:"ext"`
}
type XMsg struct {
	ID     int      `json:"id"`
	Name   B        `json:"name"`
	Fields []XField `json:"fields"`
}
type XFile struct {
	Fname    string  `json:"fname"`
	Version  B       `json:"version"`
	Includes []int   `json:"includes"` // 1-based file indices
	Enums    []XEnum `json:"enums"`
	Messages []XMsg  `json:"messages"`
}
type XDoc struct {
	Main  int     `json:"main"`
	Files []XFile `json:"files"`
}

var prims = []string{"double", "uint64_t", "int64_t", "float", "uint32_t", "int32_t", "uint16_t", "int16_t", "uint8_t", "int8_t"}
var primSize = map[string]int{"double": 8, "uint64_t": 8, "int64_t": 8, "float": 4, "uint32_t": 4, "int32_t": 4,
	"uint16_t": 2, "int16_t": 2, "uint8_t": 1, "int8_t": 1, "char": 1, "uint8_t_mavlink_version": 1}
var enumWire = []string{"uint8_t", "uint16_t", "uint32_t", "int32_t", "uint64_t", "int8_t"}

type gram struct {
	r      *rand.Rand
	names  map[string]bool
	ids    map[int]bool
	wordIx int // next reserved word to end a name with (all of them are visited in turn)
	pool   []XField // fields of earlier messages of the document: declared again, word for word, by later messages
}

var goReservedWords = []string{"TEST",
	"AIX", "ANDROID", "DARWIN", "DRAGONFLY", "FREEBSD", "HURD", "ILLUMOS", "IOS", "JS", "LINUX", "NACL", "NETBSD", "OPENBSD",
	"PLAN9", "SOLARIS", "WASIP1", "WINDOWS", "ZOS",
	"386", "AMD64", "AMD64P32", "ARM", "ARMBE", "ARM64", "ARM64BE", "LOONG64", "MIPS", "MIPSLE", "MIPS64", "MIPS64LE", "MIPS64P32",
	"MIPS64P32LE", "PPC", "PPC64", "PPC64LE", "RISCV", "RISCV64", "S390", "S390X", "SPARC", "SPARC64", "WASM"}

func (g *gram) upperName(prefix string) string {
	for {
		segs := 1 + g.r.Intn(3)
		var parts []string
		for s := 0; s < segs; s++ {
			n := 1 + g.r.Intn(5)
			var b []byte
			for i := 0; i < n; i++ {
				if i > 0 && g.r.Intn(4) == 0 {
					b = append(b, byte('0'+g.r.Intn(10)))
				} else {
					b = append(b, byte('A'+g.r.Intn(26)))
				}
			}
			if s > 0 && g.r.Intn(6) == 0 { // a segment that starts with a digit, e.g. GPS_2_RAW
				b = append([]byte{byte('0' + g.r.Intn(10))}, b...)
			}
			parts = append(parts, string(b))
		}
		nm := prefix + strings.Join(parts, "_")
		if g.r.Intn(8) == 0 {
			// names ending with a word the Go tool reserves in file names are valid MAVLink names too: "test" and every
			// operating system and architecture go/build knows - past, present and future (its lists knownOS / knownArch)
			w := goReservedWords[g.wordIx%len(goReservedWords)]
			g.wordIx += 7
			nm += "_" + w
			if g.r.Intn(4) == 0 && !(prefix == "" && w[0] >= '0' && w[0] <= '9') {
				nm = prefix + w // the word alone (a name has to start with a letter: not "386" on its own)
			}
		}
		if !g.names[nm] {
			g.names[nm] = true
			return nm
		}
	}
}

func (g *gram) fieldName(used map[string]bool) string {
	for {
		var nm string
		switch g.r.Intn(10) {
		case 0: // camel case, needs mavname
			nm = []string{"omegaIx", "Pax", "EAS2TAS", "Test_string", "accX", "xMag", "Vd", "timeUsec"}[g.r.Intn(8)]
		case 1: // digits
			nm = []string{"alt_2m", "q1", "param_7", "chan12_raw", "x2", "v_1_2"}[g.r.Intn(6)]
		case 2: // Go keywords / predeclared identifiers as field names are fine once capitalised
			nm = []string{"type", "range", "len", "string", "id", "seq"}[g.r.Intn(6)]
		default:
			segs := 1 + g.r.Intn(3)
			var parts []string
			for s := 0; s < segs; s++ {
				n := 1 + g.r.Intn(6)
				b := make([]byte, n)
				for i := range b {
					b[i] = byte('a' + g.r.Intn(26))
				}
				parts = append(parts, string(b))
			}
			nm = strings.Join(parts, "_")
		}
		// the Go names of two fields must differ too (generator maps names to CamelCase)
		k := strings.ToLower(strings.ReplaceAll(nm, "_", ""))
		if !used[k] {
			used[k] = true
			return nm
		}
	}
}

func (g *gram) literal(v uint64, bit int) string {
	switch g.r.Intn(4) {
	case 0:
		return fmt.Sprintf("0x%X", v)
	case 1:
		return "0b" + strings.Repeat("0", g.r.Intn(3)) + fmt.Sprintf("%b", v)
	case 2:
		if bit >= 0 {
			return fmt.Sprintf("2**%d", bit)
		}
	}
	return fmt.Sprintf("%d", v)
}

func (g *gram) enum() XEnum {
	name := g.upperName("E_")
	e := XEnum{Name: B(name), Bitmask: g.r.Intn(3) == 0}
	n := 1 + g.r.Intn(6)
	used := map[uint64]bool{}
	for i := 0; i < n; i++ {
		var v uint64
		bit := -1
		for {
			if e.Bitmask {
				bit = g.r.Intn(40)
				if g.r.Intn(8) == 0 {
					bit = 40 + g.r.Intn(24)
				}
				if bit == 62 {
					continue // reserved for the entry added by an including file (values stay unique within an enum)
				}
				v = 1 << uint(bit)
			} else {
				switch g.r.Intn(4) {
				case 0:
					v = uint64(i)
				case 1:
					v = uint64(g.r.Intn(70000))
				case 2:
					bit = g.r.Intn(63)
					v = 1 << uint(bit)
				default:
					v = g.r.Uint64() >> uint(g.r.Intn(60))
				}
			}
			if !used[v] {
				used[v] = true
				break
			}
		}
		// the exponent form is offered for exact powers of two only, with the exponent of THIS value (a re-rolled value
		// must not inherit the exponent of the one it replaced: two entries of one enum would denote the same value)
		bit = -1
		if v != 0 && v&(v-1) == 0 {
			bit = bits.TrailingZeros64(v)
		}
		e.Entries = append(e.Entries, XEntry{Name: B(g.upperName(name + "_")), Text: B(g.literal(v, bit)), V: v})
	}
	return e
}

func (g *gram) message(enums []XEnum) XMsg {
	m := XMsg{Name: B(g.upperName("")), Fields: []XField{}}
	for {
		m.ID = g.r.Intn(1 << 24)
		if g.r.Intn(3) == 0 {
			m.ID = g.r.Intn(256)
		}
		if !g.ids[m.ID] {
			g.ids[m.ID] = true
			break
		}
	}
	nf := g.r.Intn(9)
	extFrom := nf + 1
	if nf > 1 && g.r.Intn(2) == 0 {
		extFrom = 1 + g.r.Intn(nf) // at least one base field stays
	}
	size := 0
	used := map[string]bool{}
	for i := 0; i < nf; i++ {
		f := XField{Name: B(g.fieldName(used)), Enum: B{}, Ext: i >= extFrom}
		// the same declaration (name, type, enum, length) as a field of an earlier message - target_system, time_usec ... are
		// declared by dozens of messages - here before, there after <extensions/>, or the other way round
		reused := false
		if len(g.pool) > 0 && g.r.Intn(3) == 0 {
			pf := g.pool[g.r.Intn(len(g.pool))]
			k := strings.ToLower(strings.ReplaceAll(string(pf.Name), "_", ""))
			visible := len(pf.Enum) == 0
			for _, e := range enums {
				visible = visible || string(e.Name) == string(pf.Enum)
			}
			if !used[k] && pf.Type != "uint8_t_mavlink_version" && visible {
				used[k] = true
				f.Name, f.Type, f.Arr, f.Enum = pf.Name, pf.Type, pf.Arr, pf.Enum
				reused = true
			}
		}
		sel := g.r.Intn(8)
		if reused {
			sel = -1
		}
		switch sel {
		case -1:
		case 0:
			f.Type, f.Arr = "char", 1+g.r.Intn(20)
		case 1:
			f.Type = "char"
		case 2:
			if len(enums) > 0 {
				f.Type = enumWire[g.r.Intn(len(enumWire))]
				f.Enum = enums[g.r.Intn(len(enums))].Name
				if g.r.Intn(4) == 0 {
					f.Arr = 1 + g.r.Intn(3)
				}
				break
			}
			fallthrough
		case 3:
			f.Type, f.Arr = prims[g.r.Intn(len(prims))], 1+g.r.Intn(6)
		case 4:
			if i == 0 && g.r.Intn(3) == 0 {
				f.Type = "uint8_t_mavlink_version"
				break
			}
			fallthrough
		default:
			f.Type = prims[g.r.Intn(len(prims))]
		}
		n := f.Arr
		if n == 0 {
			n = 1
		}
		if size+primSize[f.Type]*n > 255 {
			break
		}
		size += primSize[f.Type] * n
		m.Fields = append(m.Fields, f)
	}
	g.pool = append(g.pool, m.Fields...)
	return m
}

func genDoc(r *rand.Rand, idx int) XDoc {
	g := &gram{r: r, names: map[string]bool{}, ids: map[int]bool{}, wordIx: idx*5 + r.Intn(43)}
	nfiles := 1 + r.Intn(4)
	collide := idx%3 == 0 // every third document has two include files with colliding names
	if collide && nfiles < 3 {
		nfiles = 3
	}
	remoteDoc := idx%4 == 1 && idx%3 != 0 // imported from a URL (see cmdC18Gen): the main file includes at least two others
	if remoteDoc && nfiles < 3 {
		nfiles = 3
	}
	doc := XDoc{Main: 1}
	for f := 0; f < nfiles; f++ {
		xf := XFile{Fname: fmt.Sprintf("f%d_%d.xml", idx, f), Version: B{}, Includes: []int{}, Enums: []XEnum{}, Messages: []XMsg{}}
		if f == 0 {
			xf.Fname = fmt.Sprintf("Main_%d.xml", idx)
		}
		if r.Intn(3) != 0 {
			xf.Version = B(fmt.Sprintf("%d", r.Intn(250)))
		}
		doc.Files = append(doc.Files, xf)
	}
	// include files whose names differ only by directory, underscore or letter case (paths are relative to the
	// directory the generator runs in): distinct definitions all the same
	if collide {
		a := 1 + r.Intn(nfiles-1)
		b := 1 + (a+r.Intn(nfiles-2))%(nfiles-1)
		if a != b {
			switch (idx / 3) % 3 {
			case 0:
				doc.Files[a].Fname = fmt.Sprintf("airframe%d/status.xml", idx)
				doc.Files[b].Fname = fmt.Sprintf("payload%d/status.xml", idx)
			case 1:
				doc.Files[a].Fname = fmt.Sprintf("air_frame%d.xml", idx)
				doc.Files[b].Fname = fmt.Sprintf("airframe%d.xml", idx)
			default:
				doc.Files[a].Fname = fmt.Sprintf("sub%d/Vendor.xml", idx)
				doc.Files[b].Fname = fmt.Sprintf("sub%d/vendor.xml", idx)
			}
		}
	}
	// include DAG: file i may include files with a larger index (diamonds arise naturally)
	for f := 0; f < nfiles; f++ {
		for h := f + 1; h < nfiles; h++ {
			if r.Intn(2) == 0 || h == f+1 && r.Intn(3) != 0 {
				doc.Files[f].Includes = append(doc.Files[f].Includes, h+1)
			}
		}
	}
	if remoteDoc {
		for _, h := range []int{2, 3} {
			has := false
			for _, x := range doc.Files[0].Includes {
				has = has || x == h
			}
			if !has {
				doc.Files[0].Includes = append(doc.Files[0].Includes, h)
			}
		}
		sort.Ints(doc.Files[0].Includes)
		// files 2 and 3 stay independent of each other (otherwise the order in which they are fetched cannot matter)
		var keep []int
		for _, x := range doc.Files[1].Includes {
			if x != 3 {
				keep = append(keep, x)
			}
		}
		if keep == nil {
			keep = []int{}
		}
		doc.Files[1].Includes = keep
	}
	// every file must be reachable from the main file: link orphans from file 1
	reach := map[int]bool{1: true}
	var walk func(i int)
	walk = func(i int) {
		for _, h := range doc.Files[i-1].Includes {
			if !reach[h] {
				reach[h] = true
				walk(h)
			}
		}
	}
	walk(1)
	for h := 2; h <= nfiles; h++ {
		if !reach[h] {
			doc.Files[0].Includes = append(doc.Files[0].Includes, h)
			reach[h] = true
			walk(h)
		}
	}
	// enums are visible to every file of the merged dialect: generate from the deepest file upwards
	var all []XEnum
	for f := nfiles - 1; f >= 0; f-- {
		nDeeper := len(all)
		ne := r.Intn(3)
		for e := 0; e < ne; e++ {
			en := g.enum()
			doc.Files[f].Enums = append(doc.Files[f].Enums, en)
			all = append(all, en)
		}
		// an enum extended in an including file (merged by name)
		if f < nfiles-1 && len(all) > 0 && r.Intn(2) == 0 {
			base := all[r.Intn(len(all))]
			// every other time a bitmask of a DEEPER file when there is one: flags added by an including file, above all
			// the flags the included file knows
			var bms []XEnum
			for _, e := range all[:nDeeper] {
				if e.Bitmask {
					bms = append(bms, e)
				}
			}
			if len(bms) > 0 && r.Intn(2) == 0 {
				base = bms[r.Intn(len(bms))]
			}
			ext := XEnum{Name: base.Name, Bitmask: base.Bitmask}
			extVal := uint64(1<<20 + r.Intn(1000)*2 + 1)
			ext.Entries = []XEntry{{Name: B(g.upperName(string(base.Name) + "_X")), Text: B(fmt.Sprintf("%d", extVal)), V: extVal}}
			if !base.Bitmask {
				// MAVLink does not allow two entries of one enum to have the same value
				clash := false
				for _, fl := range doc.Files {
					for _, e2 := range fl.Enums {
						if string(e2.Name) == string(base.Name) {
							for _, en := range e2.Entries {
								clash = clash || en.V == extVal
							}
						}
					}
				}
				if clash {
					continue
				}
			}
			if base.Bitmask {
				ext.Entries[0].Text = B("2**62")
				// only one extension per bitmask enum keeps values unique
				dup := false
				for _, fl := range doc.Files {
					for _, e2 := range fl.Enums {
						if string(e2.Name) == string(base.Name) && len(e2.Entries) == 1 && string(e2.Entries[0].Text) == "2**62" {
							dup = true
						}
					}
				}
				if dup {
					continue
				}
			}
			doc.Files[f].Enums = append(doc.Files[f].Enums, ext)
		}
		nm := 1 + r.Intn(3)
		for m := 0; m < nm; m++ {
			doc.Files[f].Messages = append(doc.Files[f].Messages, g.message(all))
		}
	}
	return doc
}

func (d XDoc) xml(f XFile) string {
	var b bytes.Buffer
	b.WriteString("<?xml version=\"1.0\"?>\n<mavlink>\n")
	for _, inc := range f.Includes {
		fmt.Fprintf(&b, "  <include>%s</include>\n", d.Files[inc-1].Fname)
	}
	if len(f.Version) > 0 {
		fmt.Fprintf(&b, "  <version>%s</version>\n", string(f.Version))
	}
	b.WriteString("  <dialect>0</dialect>\n  <enums>\n")
	for _, e := range f.Enums {
		bm := ""
		if e.Bitmask {
			bm = " bitmask=\"true\""
		}
		fmt.Fprintf(&b, "    <enum name=\"%s\"%s>\n      <description>enum</description>\n", string(e.Name), bm)
		for ei, en := range e.Entries {
			if ei == 1 {
				b.WriteString("      <!-- <entry value=\"4242\" name=\"RETIRED_ENTRY\"><description>gone</description></entry> -->\n")
			}
			fmt.Fprintf(&b, "      <entry value=\"%s\" name=\"%s\"><description>entry</description></entry>\n", string(en.Text), string(en.Name))
		}
		b.WriteString("    </enum>\n")
	}
	b.WriteString("  </enums>\n  <messages>\n")
	for mi, m := range f.Messages {
		fmt.Fprintf(&b, "    <message id=\"%d\" name=\"%s\">\n      <description>message</description>\n", m.ID, string(m.Name))
		// comments are not content, whatever they look like: retired fields and a retired extensions marker left in the file
		if mi%3 == 0 {
			b.WriteString("      <!-- <field type=\"uint8_t\" name=\"retired\">a retired field</field> -->\n")
		}
		ext := false
		for fi, fl := range m.Fields {
			if fi == 1 && mi%3 == 1 {
				b.WriteString("      <!-- retired: <extensions/> <field type=\"float\" name=\"old\">gone</field> -->\n")
			}
			if fl.Ext && !ext {
				b.WriteString("      <extensions/>\n")
				ext = true
			}
			t := fl.Type
			if fl.Arr > 0 {
				t = fmt.Sprintf("%s[%d]", fl.Type, fl.Arr)
			}
			en := ""
			if len(fl.Enum) > 0 {
				en = fmt.Sprintf(" enum=\"%s\"", string(fl.Enum))
			}
			fmt.Fprintf(&b, "      <field type=\"%s\" name=\"%s\"%s>a field</field>\n", t, string(fl.Name), en)
		}
		b.WriteString("    </message>\n")
	}
	b.WriteString("  </messages>\n</mavlink>\n")
	return b.String()
}

func dirDigest(dir string) string {
	var names []string
	filepath.Walk(dir, func(p string, info os.FileInfo, err error) error {
		if err == nil && !info.IsDir() {
			names = append(names, p)
		}
		return nil
	})
	sort.Strings(names)
	var b bytes.Buffer
	for _, n := range names {
		c, _ := os.ReadFile(n)
		rel, _ := filepath.Rel(dir, n)
		fmt.Fprintf(&b, "%s:%d:", rel, len(c))
		b.Write(c)
	}
	return b.String()
}

// cmdC18Gen: generate documents, run the real conversion.Convert twice on each.
// -aux workdir ; -n number of documents
func cmdC18Gen(o opts) {
	rec := newRec(o.out)
	r := rand.New(rand.NewSource(o.seed))
	n := o.n
	if n == 0 {
		n = 12
	}
	work := o.aux
	for i := 0; i < n; i++ {
		doc := genDoc(r, i)
		pkg := strings.ToLower(strings.ReplaceAll(strings.TrimSuffix(doc.Files[0].Fname, ".xml"), "_", ""))
		genErr := ""
		var digests [2]string
		for run := 0; run < 2; run++ {
			dir := filepath.Join(work, fmt.Sprintf("d%d", i), []string{"a", "b"}[run])
			os.MkdirAll(dir, 0o755)
			// every fourth document (flat file names only) is imported from a URL: a loopback HTTP server that answers
			// one include late (the first one in run a, the last one in run b)
			remote := i%4 == 1 && i%3 != 0 && len(doc.Files) > 1
			src := dir
			if remote {
				src = filepath.Join(dir, "src")
			}
			for _, f := range doc.Files {
				os.MkdirAll(filepath.Dir(filepath.Join(src, f.Fname)), 0o755)
				os.WriteFile(filepath.Join(src, f.Fname), []byte(doc.xml(f)), 0o644)
			}
			target := doc.Files[0].Fname
			var srv *http.Server
			if remote {
				incs := doc.Files[0].Includes
				slow := doc.Files[incs[0]-1].Fname
				if run == 1 {
					slow = doc.Files[incs[len(incs)-1]-1].Fname
				}
				ln, lerr := net.Listen("tcp4", "127.0.0.1:0")
				if lerr != nil {
					fatal("%v", lerr)
				}
				fs := http.FileServer(http.Dir(src))
				srv = &http.Server{Handler: http.HandlerFunc(func(w http.ResponseWriter, rq *http.Request) {
					if strings.HasSuffix(rq.URL.Path, "/"+slow) {
						time.Sleep(150 * time.Millisecond)
					}
					fs.ServeHTTP(w, rq)
				})}
				go srv.Serve(ln) //nolint:errcheck
				target = "http://" + ln.Addr().String() + "/" + doc.Files[0].Fname
			}
			cwd, _ := os.Getwd()
			os.Chdir(dir)
			stderr := os.Stderr
			null, _ := os.Open(os.DevNull)
			os.Stderr = null
			err := func() (err error) {
				defer func() {
					if p := recover(); p != nil {
						err = fmt.Errorf("panic: %v", p)
					}
				}()
				return conversion.Convert(target, false)
			}()
			if srv != nil {
				srv.Close()
			}
			os.Stderr = stderr
			os.Chdir(cwd)
			if err != nil {
				genErr = err.Error()
			}
			digests[run] = dirDigest(filepath.Join(dir, pkg))
		}
		rec.Put(M{"e": "GENRUN", "i": i, "doc": doc, "pkg": pkg, "gen_err": genErr != "", "gen_err_text": genErr,
			"deterministic": digests[0] == digests[1]})
	}
	rec.Close()
}

// ---- probe side: the generated packages are compiled into this binary by zz_gen_probe.go

type genDialectEntry struct {
	I      int
	D      *dialect.Dialect
	Consts []enumConst
}

var genDialects []genDialectEntry

// genEnumEntry: one enum type of a generated package (closures written by lib/checks/c18.py into zz_gen_probe.go)
type genEnumEntry struct {
	I int
	T enumType
}

var genEnums []genEnumEntry

// cmdC18Probe: -vectors GENRUN records ; -aux comma separated indices that did not compile
func cmdC18Probe(o opts) {
	rec := newRec(o.out)
	r := rand.New(rand.NewSource(o.seed))
	var runs []struct {
		I             int  `json:"i"`
		Doc           XDoc `json:"doc"`
		GenErr        bool `json:"gen_err"`
		Deterministic bool `json:"deterministic"`
	}
	readVectors(o.vectors, &runs)
	byI := map[int]genDialectEntry{}
	for _, g := range genDialects {
		byI[g.I] = g
	}
	if o.aux == "enums" {
		// C19 on generated dialects: text round trip of every enum type of every generated package
		for _, ge := range genEnums {
			var cs []enumConst
			for _, c := range byI[ge.I].Consts {
				if c.Pkg+"."+c.Enum == ge.T.Name {
					cs = append(cs, c)
				}
			}
			rec.Put(enumRecord(ge.T, cs, r, o.tier == "thorough"))
		}
		rec.Close()
		return
	}
	for _, run := range runs {
		out := M{"e": "GEN", "i": run.I, "doc": run.Doc, "gen_err": run.GenErr, "deterministic": run.Deterministic,
			"compiled": false, "init_ok": false, "version": 0, "msgs": []M{}, "consts": []M{}}
		g, ok := byI[run.I]
		if ok {
			out["compiled"] = true
			out["version"] = g.D.Version
			_, iok, _ := safeDialectInit(g.D)
			out["init_ok"] = iok
			var msgs []M
			for _, m := range g.D.Messages {
				d := defOf(m)
				mm := M{"def": d, "crc": -1, "size_v1": -1, "size_v2": -1, "probes": []M{}, "type": reflect.TypeOf(m).Elem().Name()}
				rw, mok, _ := safeInit(m)
				if mok {
					mm["crc"] = int(rw.CRCExtra())
					sh := shapes(d)
					full := make([][]B, len(sh))
					for i, s := range sh {
						if s.isStr {
							full[i] = []B{B(bytesOf('A', s.strlen))}
						} else {
							full[i] = make([]B, s.n)
							for k := range full[i] {
								full[i][k] = B(bytesOf(0xFF, s.gosize))
							}
						}
					}
					o1, _ := safeWrite(rw, newMsg(m, full), false)
					o2, _ := safeWrite(rw, newMsg(m, full), true)
					mm["size_v1"], mm["size_v2"] = len(o1), len(o2)
					var probes []M
					for k := 0; k < 3; k++ {
						vals := randVals(r, sh, k == 0)
						if k == 1 { // distinct non-zero bytes everywhere
							for i, s := range sh {
								if s.isStr {
									vals[i] = []B{distinctBytes(0x41+i, s.strlen)}
								} else {
									for e := range vals[i] {
										vals[i][e] = distinctBytes(0x11*(1+(i+e)%13), s.gosize)
									}
								}
							}
						}
						for _, v2 := range []bool{true, false} {
							outp, _ := safeWrite(rw, newMsg(m, vals), v2)
							probes = append(probes, M{"vals": vals, "v2": v2, "out": outp})
						}
					}
					mm["probes"] = probes
				}
				msgs = append(msgs, mm)
			}
			if msgs != nil {
				out["msgs"] = msgs
			}
			var cs []M
			for _, c := range g.Consts {
				cs = append(cs, M{"name": B(c.Name), "value": le(c.Value, 8)})
			}
			if cs != nil {
				out["consts"] = cs
			}
		}
		rec.Put(out)
	}
	rec.Close()
}
