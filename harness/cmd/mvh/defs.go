package main

import (
	"encoding/json"
	"os"
	"reflect"

	inhouse "verif/harness/cmd/mvh/inhouse/common"

	"github.com/bluenviron/gomavlib/v3/pkg/dialect"
	"github.com/bluenviron/gomavlib/v3/pkg/message"
)

func init() { cmds["defs"] = cmdDefs }

// allProtos: every distinct shipped message struct, then the user structs (stable order = def index - 1).
func allProtos() []message.Message {
	return append(append(distinctMessages(), userMessages...), inhouse.Good...)
}

func defIndex(protos []message.Message) map[reflect.Type]int {
	ix := map[reflect.Type]int{}
	for i, p := range protos {
		ix[reflect.TypeOf(p)] = i + 1
	}
	return ix
}

func dialectIndices(d *dialect.Dialect, ix map[reflect.Type]int) []int {
	out := make([]int, 0, len(d.Messages))
	for _, m := range d.Messages {
		out = append(out, ix[reflect.TypeOf(m)])
	}
	return out
}

func writeJSON(path string, v interface{}) {
	f, err := os.Create(path)
	if err != nil {
		fatal("%v", err)
	}
	if err := json.NewEncoder(f).Encode(v); err != nil {
		fatal("%v", err)
	}
	f.Close()
}

// mvh defs -out X: writes X (defs array) and X.<dialect>.json (index lists) for every shipped dialect.
func cmdDefs(o opts) {
	protos := allProtos()
	var defs []DefJ
	for _, p := range protos {
		defs = append(defs, defOf(p))
	}
	writeJSON(o.out, defs)
	ix := defIndex(protos)
	for _, nd := range shipped {
		writeJSON(o.out+"."+nd.Name+".json", dialectIndices(nd.D, ix))
	}
	writeJSON(o.out+".allplus.json", dialectIndices(findDialect("allplus"), ix))
	writeJSON(o.out+".inhouse.json", dialectIndices(inhouse.Dialect, ix))
}

func findDialect(name string) *dialect.Dialect {
	if name == "allplus" { // every shipped message plus the harness's user messages (ids up to 0xFFFFFF)
		all := findDialect("all")
		return &dialect.Dialect{Version: all.Version, Messages: append(append([]message.Message{}, all.Messages...), userMessages...)}
	}
	for _, nd := range shipped {
		if nd.Name == name {
			return nd.D
		}
	}
	fatal("no dialect %s", name)
	return nil
}

func mustRW(d *dialect.Dialect) *dialect.ReadWriter {
	rw := &dialect.ReadWriter{Dialect: d}
	if err := rw.Initialize(); err != nil {
		fatal("dialect init: %v", err)
	}
	return rw
}
