package main

import (
	"bytes"
	"errors"
	"fmt"
	"math/rand"
	"os"
	"reflect"
	"runtime"
	"sync"
	"syscall"
	"time"

	"github.com/bluenviron/gomavlib/v3/pkg/dialect"
	"github.com/bluenviron/gomavlib/v3/pkg/frame"
	"github.com/bluenviron/gomavlib/v3/pkg/message"
	"github.com/bluenviron/gomavlib/v3/pkg/tlog"
)

func init() { cmds["tlog"] = cmdTlog }

// failWriter records the file and fails at the k-th underlying Write (1-based; 0 = never).
type failWriter struct {
	buf    bytes.Buffer
	calls  int
	failAt int
	failed bool // set when the injected failure fired during the current entry
	yield  bool // the sink is slow: it consumes the data in two halves with other goroutines running in between
}

func (w *failWriter) Write(p []byte) (int, error) {
	w.calls++
	if w.yield {
		h := len(p) / 2
		w.buf.Write(p[:h])
		runtime.Gosched()
		time.Sleep(20 * time.Microsecond)
		w.buf.Write(p[h:])
		return len(p), nil
	}
	if w.failAt > 0 && w.calls == w.failAt {
		w.failed = true
		// a failing write may have put part of the data out - or all of it (io.Writer allows n == len(p) with an error,
		// e.g. a write-then-fsync wrapper whose fsync fails)
		n := len(p) / 2
		if w.failAt%2 == 0 {
			n = len(p)
		}
		w.buf.Write(p[:n])
		return n, w.injected()
	}
	w.buf.Write(p)
	return len(p), nil
}

// temporaryErr: an error of the kind that says "try again" (Temporary() and Timeout() report true)
type temporaryErr struct{}

func (temporaryErr) Error() string   { return "verif: resource temporarily unavailable" }
func (temporaryErr) Temporary() bool { return true }
func (temporaryErr) Timeout() bool   { return true }

// injected: what the failing call returns - a plain error, a deadline, EAGAIN inside a PathError, EINTR wrapped, an error
// that calls itself temporary (the type of the error must not matter: the write failed, part of the data may be out)
func (w *failWriter) injected() error {
	switch w.failAt % 5 {
	case 1:
		return os.ErrDeadlineExceeded
	case 2:
		return &os.PathError{Op: "write", Path: "log", Err: syscall.EAGAIN}
	case 3:
		return fmt.Errorf("sink: %w", syscall.EINTR)
	case 4:
		return temporaryErr{}
	}
	return errSentinel
}

type tentry struct {
	sec  int64
	nsec int
	f    FrameJ
	d    int
	msg  message.Message
	vals [][]B
}

func (e tentry) goFrame() frame.Frame {
	fr := e.f.toGo()
	if e.d != 0 {
		m := newMsg(e.msg, e.vals)
		switch f := fr.(type) {
		case *frame.V1Frame:
			f.Message = m
		case *frame.V2Frame:
			f.Message = m
		}
	}
	return fr
}

const goZeroTimeSec = -62135596800 // time.Time{}.Unix()

func genEntry(r *rand.Rand, drw *dialect.ReadWriter, com *dialect.Dialect, ix map[reflect.Type]int, small []message.Message) tentry {
	var e tentry
	// times before / after 1970, at sub-microsecond offsets around microsecond boundaries
	zeroTime := false
	switch r.Intn(9) {
	case 8:
		// the zero value of time.Time (1 January of year 1, UTC) is an instant like any other: -62135596800 s
		e.sec, zeroTime = goZeroTimeSec, true
	case 0:
		e.sec = 0
	case 1:
		e.sec = -1
	case 2:
		e.sec = -int64(r.Intn(1 << 30))
	case 3:
		e.sec = 1 << 32
	case 4:
		e.sec = 9223372036 // close to the year-2262 limit of nanosecond clocks
	case 5:
		e.sec = -9223372036
	default:
		e.sec = 1700000000 + int64(r.Intn(1<<20))
	}
	switch r.Intn(6) {
	case 0:
		e.nsec = 0
	case 1:
		e.nsec = 999999999
	case 2:
		e.nsec = 1000*r.Intn(1000000) + 999
	case 3:
		e.nsec = 1000 * r.Intn(1000000)
	case 4:
		e.nsec = 1000*r.Intn(1000000) + 1
	default:
		e.nsec = r.Intn(1000000000)
	}
	if zeroTime && r.Intn(3) != 0 {
		e.nsec = []int{0, 0, 1, 1000}[r.Intn(4)] // the zero value itself, and its neighbours
	}
	v := 1 + r.Intn(2)
	e.f = mkFrame(r, v, v == 2 && r.Intn(3) == 0, []int{0, 1, 3, 20, 255}[r.Intn(5)])
	if drw != nil && r.Intn(2) == 0 {
		// a decoded message of the dialect with a checksum the reader will accept
		m := small[r.Intn(len(small))]
		if v == 1 && m.GetID() > 255 {
			v = 2
			e.f.V = 2
		}
		e.d, e.msg = ix[reflect.TypeOf(m)], m
		e.vals = randVals(r, shapes(defOf(m)), true)
		e.f.ID = int(m.GetID())
		e.f.Payload = B{}
		// compute the checksum with the library (input generation; the reader's gate is C02's subject)
		rwm := drw.GetMessage(m.GetID())
		raw := rwm.Write(newMsg(m, e.vals), v == 2)
		tmp := e.f
		tmp.Payload = B(raw.Payload)
		switch f := tmp.toGo().(type) {
		case *frame.V1Frame:
			e.f.Ck = int(f.GenerateChecksum(rwm.CRCExtra()))
		case *frame.V2Frame:
			e.f.Ck = int(f.GenerateChecksum(rwm.CRCExtra()))
		}
	} else if drw != nil {
		// raw frame read back through a dialect: keep its id outside the dialect
		e.f.ID = 200 + r.Intn(20)
		for drw.GetMessage(uint32(e.f.ID)) != nil {
			e.f.ID++
		}
		if v == 1 && e.f.ID > 255 {
			e.f.ID = 255
		}
	}
	return e
}

func cmdTlog(o opts) {
	rec := newRec(o.out)
	r := rand.New(rand.NewSource(o.seed))
	thorough := o.tier == "thorough"
	protos := allProtos()
	ix := defIndex(protos)
	com := findDialect("common")
	comRW := mustRW(com)
	comDl := dialectIndices(com, ix)
	var small []message.Message
	for _, m := range com.Messages {
		if b, _ := sizesOf(defOf(m)); b <= 40 {
			small = append(small, m)
		}
	}

	nlogs := 10
	if thorough {
		nlogs = 200
	}
	for l := 0; l < nlogs; l++ {
		var drw *dialect.ReadWriter
		dl := []int{}
		if l%3 == 2 {
			drw, dl = comRW, comDl
		}
		n := 1 + r.Intn(5)
		var entries []tentry
		for i := 0; i < n; i++ {
			entries = append(entries, genEntry(r, drw, com, ix, small))
		}
		if l < 3 {
			// every run has it, with and without a dialect: an entry whose time is the zero value of time.Time
			entries[0].sec, entries[0].nsec = goZeroTimeSec, 0
		}
		// unencodable entries at a seeded position of some logs
		bad := -1
		if l%2 == 1 {
			bad = r.Intn(n)
			e := &entries[bad]
			if drw == nil && r.Intn(2) == 0 {
				// decoded message but no dialect
				m := small[0]
				e.d, e.msg, e.vals = ix[reflect.TypeOf(m)], m, zeroVals(m)
				e.f.ID = int(m.GetID())
			} else {
				e.d, e.msg, e.vals = 0, nil, nil
				e.f = mkFrame(r, 1, false, 2)
				e.f.ID = 300 // a v1 frame cannot carry it
			}
		}
		// variants: no fault; a transport error at the k-th underlying write for every k
		maxCalls := 2*n + 1
		for failAt := 0; failAt <= maxCalls; failAt++ {
			if !thorough && failAt > 0 && l >= 4 && failAt%2 == 0 {
				continue
			}
			fw := &failWriter{failAt: failAt}
			w := &tlog.Writer{ByteWriter: fw, DialectRW: drw}
			if err := w.Initialize(); err != nil {
				fatal("tlog writer: %v", err)
			}
			var es []M
			for _, e := range entries {
				before := fw.buf.Len()
				fw.failed = false
				t := time.Unix(e.sec, int64(e.nsec))
				var err error
				pan := func() (p bool) {
					defer func() {
						if x := recover(); x != nil {
							p = true
						}
					}()
					err = w.Write(&tlog.Entry{Time: t, Frame: e.goFrame()})
					return false
				}()
				vals := e.vals
				if vals == nil {
					vals = [][]B{}
				}
				es = append(es, M{"sec": le(uint64(e.sec), 8), "nsec": e.nsec, "f": e.f, "d": e.d, "vals": vals,
					"ok": err == nil && !pan, "panic": pan, "inj": fw.failed,
					"reported_injected": err != nil && errors.Is(err, fw.injected()),
					"grew":              B(append([]byte{}, fw.buf.Bytes()[before:]...))})
				if fw.failed {
					break // after a transport failure the file is the application's problem
				}
			}
			rec.Put(M{"e": "TLOGW", "dl": dl, "entries": es, "fail_at": failAt, "bad_at": bad})

			// read back every prefix of the fault-free file of logs without unencodable entries
			if failAt == 0 && bad < 0 {
				file := append([]byte{}, fw.buf.Bytes()...)
				for cut := 0; cut <= len(file); cut++ {
					if !thorough && len(file) > 400 && cut%3 != int(o.seed%3) && cut != len(file) {
						continue
					}
					rec.Put(M{"e": "TLOGR", "dl": dl, "file": B(file), "cut": cut, "results": readTlog(file[:cut], drw, n, cut),
						"written": n})
				}
			}
		}
	}
	// several logs written at the same time, each by its own writer and goroutine into its own slow sink (independent writers
	// must not share anything): every log is then judged like the others
	nconc, nent := 8, 60
	if thorough {
		nconc, nent = 16, 300
	}
	type concLog struct {
		entries []tentry
		es      []M
		file    []byte
	}
	logs := make([]concLog, nconc)
	for i := range logs {
		for k := 0; k < nent; k++ {
			logs[i].entries = append(logs[i].entries, genEntry(r, nil, com, ix, small))
		}
	}
	var wg sync.WaitGroup
	// beside them, other logs of the same process fail: two goroutines keep writing to logs whose sink refuses the first or
	// the second write (not judged here - the sequential family does that): what they go through must not reach the others
	stopFailers := make(chan struct{})
	var fwg sync.WaitGroup
	for g := 0; g < 2; g++ {
		fwg.Add(1)
		ent := genEntry(r, nil, com, ix, small)
		go func(g int) {
			defer fwg.Done()
			for k := 0; ; k++ {
				select {
				case <-stopFailers:
					return
				default:
				}
				fw := &failWriter{failAt: 1 + (g+k)%2}
				w := &tlog.Writer{ByteWriter: fw}
				if err := w.Initialize(); err != nil {
					return
				}
				func() {
					defer func() { recover() }()                                            //nolint:errcheck
					w.Write(&tlog.Entry{Time: time.Unix(ent.sec, 0), Frame: ent.goFrame()}) //nolint:errcheck
				}()
				time.Sleep(50 * time.Microsecond)
			}
		}(g)
	}
	for i := range logs {
		wg.Add(1)
		go func(lg *concLog) {
			defer wg.Done()
			fw := &failWriter{yield: true}
			w := &tlog.Writer{ByteWriter: fw}
			if err := w.Initialize(); err != nil {
				return
			}
			for _, e := range lg.entries {
				before := fw.buf.Len()
				t := time.Unix(e.sec, int64(e.nsec))
				var err error
				pan := func() (p bool) {
					defer func() {
						if x := recover(); x != nil {
							p = true
						}
					}()
					err = w.Write(&tlog.Entry{Time: t, Frame: e.goFrame()})
					return false
				}()
				lg.es = append(lg.es, M{"sec": le(uint64(e.sec), 8), "nsec": e.nsec, "f": e.f, "d": e.d, "vals": [][]B{},
					"ok": err == nil && !pan, "panic": pan, "inj": false, "reported_injected": false,
					"grew": B(append([]byte{}, fw.buf.Bytes()[before:]...))})
			}
			lg.file = append([]byte{}, fw.buf.Bytes()...)
		}(&logs[i])
	}
	wg.Wait()
	close(stopFailers)
	fwg.Wait()
	for i := range logs {
		rec.Put(M{"e": "TLOGW", "dl": []int{}, "entries": logs[i].es, "fail_at": 0, "bad_at": -1, "concurrent": nconc})
	}
	rec.Close()
}

func readTlog(data []byte, drw *dialect.ReadWriter, n int, variant int) []M {
	// the file arrives from its source in pieces: 7 bytes at a time, all at once, byte by byte, 3 bytes then the rest
	sched := [][]int{{7}, nil, {1}, {3, 1 << 20}, {8, 5}}[variant%5]
	rd := &tlog.Reader{ByteReader: &chunkReader{data: data, limit: len(data), sched: sched, err: errSentinel}, DialectRW: drw}
	if err := rd.Initialize(); err != nil {
		fatal("tlog reader: %v", err)
	}
	// entries are looked at only after the whole file has been read: what Read returned must stay what it was
	type rawEntry struct {
		e   *tlog.Entry
		err error
		pan bool
	}
	var raws []rawEntry
	for i := 0; i < n+3; i++ {
		var e *tlog.Entry
		var err error
		pan := func() (p bool) {
			defer func() {
				if x := recover(); x != nil {
					p = true
				}
			}()
			e, err = rd.Read()
			return false
		}()
		raws = append(raws, rawEntry{e, err, pan})
		if pan || err != nil {
			break
		}
	}
	var out []M
	for _, rw := range raws {
		if rw.pan {
			out = append(out, M{"k": "panic"})
			break
		}
		if rw.err != nil {
			out = append(out, M{"k": "err", "err": rw.err.Error()})
			break
		}
		e := rw.e
		us := e.Time.UnixMicro()
		be := make(B, 8)
		for k := 0; k < 8; k++ {
			be[k] = byte(uint64(us) >> (56 - 8*k))
		}
		res := classify(e.Frame, nil)
		m := M{"k": "entry", "us": be, "sub_us": e.Time.Nanosecond() % 1000, "f": res.F}
		if res.Dec != nil {
			m["dec"] = res.Dec
		}
		out = append(out, m)
	}
	return out
}
