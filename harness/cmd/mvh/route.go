package main

import (
	"bytes"
	"io"
	"math/rand"
	"reflect"
	"sync"

	"github.com/bluenviron/gomavlib/v3"
	"github.com/bluenviron/gomavlib/v3/pkg/dialect"
	"github.com/bluenviron/gomavlib/v3/pkg/frame"
)

func init() { cmds["route"] = cmdRoute }

type routeVec struct {
	D     int    `json:"d"`
	Var   string `json:"var"`
	Bytes B      `json:"bytes"`
	Key   B      `json:"key"`
}

// blockRWC: a transport whose Read blocks until Close.
type blockRWC struct {
	once sync.Once
	ch   chan struct{}
}

func newBlockRWC() *blockRWC                    { return &blockRWC{ch: make(chan struct{})} }
func (b *blockRWC) Read(p []byte) (int, error)  { <-b.ch; return 0, io.EOF }
func (b *blockRWC) Write(p []byte) (int, error) { return len(p), nil }
func (b *blockRWC) Close() error                { b.once.Do(func() { close(b.ch) }); return nil }

// hop: read one frame from x with a reader, write it unchanged with a writer.
func hop(x []byte, drw *dialect.ReadWriter) (accepted bool, out B, panicked bool) {
	defer func() {
		if r := recover(); r != nil {
			panicked = true
		}
	}()
	rd := &frame.Reader{ByteReader: &chunkReader{data: x, limit: len(x), err: io.EOF}, DialectRW: drw}
	if err := rd.Initialize(); err != nil {
		fatal("%v", err)
	}
	fr, err := rd.Read()
	if err != nil {
		return false, B{}, false
	}
	sink := &recWriter{}
	w := &frame.Writer{ByteWriter: sink, DialectRW: drw}
	if err := w.Initialize(); err != nil {
		fatal("%v", err)
	}
	if err := w.Write(fr); err != nil {
		return true, B{}, false
	}
	return true, B(append([]byte{}, sink.buf.Bytes()...)), false
}

// hopBatch: store and forward. One reader reads ALL the frames of the stream x1 x2 .. xk (delivered in small pieces),
// the application keeps them, and only then one writer writes them all. outs[i] is what was written for frame i
// (nil: not read as a frame / not written).
func hopBatch(xs [][]byte, drw *dialect.ReadWriter, piece int) (outs []B, panicked bool) {
	outs = make([]B, len(xs))
	defer func() {
		if r := recover(); r != nil {
			panicked = true
		}
	}()
	var all []byte
	for _, x := range xs {
		all = append(all, x...)
	}
	rd := &frame.Reader{ByteReader: &chunkReader{data: all, limit: len(all), sched: []int{piece}, err: io.EOF}, DialectRW: drw}
	if err := rd.Initialize(); err != nil {
		fatal("%v", err)
	}
	var kept []frame.Frame
	for range xs {
		fr, err := rd.Read()
		if err != nil {
			return outs, false // the single-frame chains judge refusals; a batch is only judged when every frame was read
		}
		kept = append(kept, fr)
	}
	sink := &recWriter{}
	w := &frame.Writer{ByteWriter: sink, DialectRW: drw}
	if err := w.Initialize(); err != nil {
		fatal("%v", err)
	}
	for i, fr := range kept {
		before := sink.buf.Len()
		if err := w.Write(fr); err != nil {
			continue
		}
		outs[i] = B(append([]byte{}, sink.buf.Bytes()[before:]...))
	}
	return outs, false
}

func cmdRoute(o opts) {
	rec := newRec(o.out)
	r := rand.New(rand.NewSource(o.seed))
	protos := allProtos()
	ix := defIndex(protos)
	all := findDialect("all")
	drw := mustRW(all)
	dl := dialectIndices(all, ix)

	var vecs []routeVec
	readVectors(o.vectors, &vecs)
	if o.aux == "poolonly" {
		// the worker pools alone (run by C15 under the race detector)
		fixConcurrent(rec, vecs, drw, dl, 3000)
		rec.Close()
		return
	}
	// store and forward: groups of up to 6 vectors read by one reader, kept, then written by one writer
	for g0 := 0; g0 < len(vecs); g0 += 6 {
		grp := vecs[g0:min2(g0+6, len(vecs))]
		for _, withDl := range []bool{false, true} {
			var d *dialect.ReadWriter
			dlj := []int{}
			if withDl {
				d, dlj = drw, dl
			}
			var xs [][]byte
			for _, v := range grp {
				xs = append(xs, v.Bytes)
			}
			outs, pan := hopBatch(xs, d, []int{64, 1, 300, 17}[(g0/6)%4])
			complete := true
			for _, o := range outs {
				complete = complete && o != nil
			}
			if !complete && !pan {
				continue
			}
			for i, v := range grp {
				out := outs[i]
				if out == nil {
					out = B{}
				}
				rec.Put(M{"e": "ROUTE", "dl": dlj, "x0": v.Bytes, "chain": []M{{"accepted": true, "out": out, "panic": pan}},
					"var": "batch_" + v.Var, "d": v.D})
			}
		}
	}
	for _, v := range vecs {
		for _, withDl := range []bool{false, true} {
			var d *dialect.ReadWriter
			dlj := []int{}
			if withDl {
				d, dlj = drw, dl
			}
			hops := 3
			x := []byte(v.Bytes)
			var chain []M
			for h := 0; h < hops; h++ {
				acc, out, pan := hop(x, d)
				chain = append(chain, M{"accepted": acc, "out": out, "panic": pan})
				if !acc || len(out) == 0 {
					break
				}
				x = out
			}
			rec.Put(M{"e": "ROUTE", "dl": dlj, "x0": v.Bytes, "chain": chain, "var": v.Var, "d": v.D})
		}
		// unknown id through a dialect hop: passes through untouched
		if v.Var == "canon" {
			x := append([]byte{}, v.Bytes...)
			x[7], x[8], x[9] = 0x3F, 0x42, 0x0F // id 999999, checksum not checked for unknown ids
			var chain []M
			in := x
			for h := 0; h < 2; h++ {
				acc, out, pan := hop(in, drw)
				chain = append(chain, M{"accepted": acc, "out": out, "panic": pan})
				if !acc || len(out) == 0 {
					break
				}
				in = out
			}
			rec.Put(M{"e": "ROUTE", "dl": dl, "x0": B(x), "chain": chain, "var": "unknown_id", "d": 0})
		}

		// FixFrame: edit the received message, fix, write, next hop
		if v.Var == "canon" || v.Var == "signed" || v.Var == "v1" || v.Var == "after_nul" {
			for _, keyed := range []bool{false, true} {
				for _, edit := range []string{"all", "none", "sigfields", "twice_seq"} {
					if edit == "sigfields" && v.Var != "signed" {
						continue
					}
					fixOne(rec, r, v, drw, dl, keyed, edit, false)
					if keyed && edit != "all" {
						// the node's incoming key has the same value as its outgoing key (one key for the whole network)
						fixOne(rec, r, v, drw, dl, keyed, edit, true)
					}
				}
			}
		}
	}
	njobs := 8000
	if o.tier == "thorough" {
		njobs = 40000
	}
	fixConcurrent(rec, vecs, drw, dl, njobs)
	rec.Close()
}

func fixOne(rec *Rec, r *rand.Rand, v routeVec, drw *dialect.ReadWriter, dl []int, keyed bool, edit string, sameInKey bool) {
	var outKey *frame.V2Key
	keyJ := B{}
	isV1 := v.Bytes[0] == 0xFE
	if keyed && !isV1 {
		k := rbytes(r, 32)
		outKey = frame.NewV2Key(k)
		keyJ = k
	}
	node := &gomavlib.Node{
		Endpoints:        []gomavlib.EndpointConf{gomavlib.EndpointCustom{ReadWriteCloser: newBlockRWC()}},
		Dialect:          findDialect("all"),
		OutVersion:       gomavlib.V2,
		OutSystemID:      10,
		OutKey:           outKey,
		HeartbeatDisable: true,
	}
	if sameInKey && outKey != nil {
		node.InKey = frame.NewV2Key(keyJ)
	}
	if err := node.Initialize(); err != nil {
		fatal("node: %v", err)
	}
	defer node.Close()
	go func() {
		for range node.Events() {
		}
	}()
	if rcd := fixWith(node, outKey, keyJ, r, v, drw, dl, edit); rcd != nil {
		if sameInKey && outKey != nil {
			rcd["var"] = rcd["var"].(string) + "_in_key_equals_out_key"
		}
		rec.Put(rcd)
	}
}

// fixWith: one received frame edited, fixed by the node and written on; returns the FIX record (nil if the vector is not
// readable).
func fixWith(node *gomavlib.Node, outKey *frame.V2Key, keyJ B, r *rand.Rand, v routeVec, drw *dialect.ReadWriter, dl []int, edit string) M {
	rd := &frame.Reader{ByteReader: &chunkReader{data: v.Bytes, limit: len(v.Bytes), err: io.EOF}, DialectRW: drw}
	rd.Initialize()
	fr, err := rd.Read()
	if err != nil {
		return nil
	}
	// edit: every numeric field gets a new value, strings get a new text ("all"); nothing ("none": the frame still has
	// to leave valid under the outgoing key); only the signature link id and timestamp ("sigfields")
	msg := fr.GetMessage()
	mv := reflect.ValueOf(msg).Elem()
	if edit == "sigfields" {
		if v2, ok := fr.(*frame.V2Frame); ok {
			v2.SignatureLinkID ^= 0x5A
			v2.SignatureTimestamp += 12345
		}
	}
	for i := 0; i < mv.NumField() && (edit == "all" || edit == "twice_seq"); i++ {
		f := mv.Field(i)
		switch f.Kind() {
		case reflect.String:
			f.SetString("ed")
		case reflect.Array:
			setElem(f.Index(f.Len()-1), rbytes(r, int(f.Index(0).Type().Size())))
		default:
			if i%2 == 0 {
				setElem(f, rbytes(r, int(f.Type().Size())))
			}
		}
	}
	vals := valsOf(msg)
	rcd := M{"e": "FIX", "dl": dl, "key": keyJ, "x0": v.Bytes, "d": v.D, "vals": vals, "var": v.Var, "edit": edit, "panic": false}
	func() {
		defer func() {
			if p := recover(); p != nil {
				rcd["panic"] = true
			}
		}()
		err := node.FixFrame(fr)
		if edit == "twice_seq" && err == nil {
			// the frame goes out once, then the application re-stamps the sequence number for another link and asks the
			// node to fix the frame again (the message is in encoded form by now)
			s0 := &recWriter{}
			w0 := &frame.Writer{ByteWriter: s0, DialectRW: drw}
			w0.Initialize()
			w0.Write(fr) //nolint:errcheck
			newSeq := 0
			switch f := fr.(type) {
			case *frame.V1Frame:
				f.SequenceNumber += 7
				newSeq = int(f.SequenceNumber)
			case *frame.V2Frame:
				f.SequenceNumber += 7
				newSeq = int(f.SequenceNumber)
			}
			rcd["seq2"] = newSeq
			err = node.FixFrame(fr)
		}
		rcd["fix_ok"] = err == nil
		sink := &recWriter{}
		w := &frame.Writer{ByteWriter: sink, DialectRW: drw}
		w.Initialize()
		w.Write(fr) //nolint:errcheck
		out := append([]byte{}, sink.buf.Bytes()...)
		rcd["out"] = B(out)
		// next hop: a reader that demands a valid checksum and, when the frame is signed and we have a key, a valid signature
		var inKey *frame.V2Key
		if v2, ok := fr.(*frame.V2Frame); ok && v2.IsSigned() && outKey != nil {
			inKey = outKey
		}
		rd2 := &frame.Reader{ByteReader: &chunkReader{data: out, limit: len(out), err: io.EOF}, DialectRW: drw, InKey: inKey}
		rd2.Initialize()
		_, err2 := rd2.Read()
		rcd["next_accepted"] = err2 == nil
	}()
	for _, k := range []string{"fix_ok", "out", "next_accepted"} {
		if _, ok := rcd[k]; !ok {
			rcd[k] = map[string]interface{}{"fix_ok": false, "out": B{}, "next_accepted": false}[k]
		}
	}
	return rcd
}

// fixConcurrent: a router with a pool of workers - four goroutines edit, fix (one shared node) and forward frames of
// different message types at the same time. Every job is deterministic (its own seeded edits, no key), so the whole pool
// is first run one job after the other; the concurrent pass must give the same bytes. A few records of the concurrent
// pass are always judged by the monitor, and every job whose bytes differ from the sequential pass is.
func fixConcurrent(rec *Rec, vecs []routeVec, drw *dialect.ReadWriter, dl []int, jobs int) {
	var canon []routeVec
	seen := map[int]bool{}
	for _, v := range vecs {
		if (v.Var == "canon" || v.Var == "v1") && !seen[v.D] {
			seen[v.D] = true
			canon = append(canon, v)
		}
	}
	if len(canon) < 2 {
		return
	}
	node := &gomavlib.Node{
		Endpoints:        []gomavlib.EndpointConf{gomavlib.EndpointCustom{ReadWriteCloser: newBlockRWC()}},
		Dialect:          findDialect("all"),
		OutVersion:       gomavlib.V2,
		OutSystemID:      10,
		HeartbeatDisable: true,
	}
	if err := node.Initialize(); err != nil {
		fatal("node: %v", err)
	}
	defer node.Close()
	go func() {
		for range node.Events() {
		}
	}()
	const workers = 4
	job := func(w, i int) M {
		v := canon[(w+i)%len(canon)]
		return fixWith(node, nil, B{}, rand.New(rand.NewSource(int64(w*1000003+i))), v, drw, dl, "all")
	}
	solo := make([][]M, workers)
	for w := 0; w < workers; w++ {
		solo[w] = make([]M, jobs)
		for i := 0; i < jobs; i++ {
			solo[w][i] = job(w, i)
		}
	}
	conc := make([][]M, workers)
	var wg sync.WaitGroup
	for w := 0; w < workers; w++ {
		conc[w] = make([]M, jobs)
		wg.Add(1)
		go func(w int) {
			defer wg.Done()
			for i := 0; i < jobs; i++ {
				conc[w][i] = job(w, i)
			}
		}(w)
	}
	wg.Wait()
	// the same pool on a node that signs (one outgoing key): the timestamps make the bytes differ from run to run, so there
	// is no sequential pass to compare with - every job the next hop (a reader with the key) refuses is judged by the monitor,
	// and so are the first three of each worker
	kb := make([]byte, 32)
	for i := range kb {
		kb[i] = byte(7 * (i + 3))
	}
	knode := &gomavlib.Node{
		Endpoints:        []gomavlib.EndpointConf{gomavlib.EndpointCustom{ReadWriteCloser: newBlockRWC()}},
		Dialect:          findDialect("all"),
		OutVersion:       gomavlib.V2,
		OutSystemID:      10,
		OutKey:           frame.NewV2Key(kb),
		HeartbeatDisable: true,
	}
	if err := knode.Initialize(); err != nil {
		fatal("node: %v", err)
	}
	defer knode.Close()
	go func() {
		for range knode.Events() {
		}
	}()
	var v2only []routeVec
	for _, v := range canon {
		if v.Bytes[0] == 0xFD {
			v2only = append(v2only, v)
		}
	}
	if len(v2only) >= 2 {
		kres := make([][]M, workers)
		var kwg sync.WaitGroup
		for w := 0; w < workers; w++ {
			kres[w] = make([]M, jobs/2)
			kwg.Add(1)
			go func(w int) {
				defer kwg.Done()
				for i := range kres[w] {
					kres[w][i] = fixWith(knode, knode.OutKey, B(kb), rand.New(rand.NewSource(int64(w*7000003+i))), v2only[(w+i)%len(v2only)], drw, dl, "all")
				}
			}(w)
		}
		kwg.Wait()
		for w := range kres {
			for i, b := range kres[w] {
				if b != nil && (i < 3 || b["next_accepted"] != true || b["panic"] == true) {
					b["var"] = b["var"].(string) + "_keyed_worker_pool"
					rec.Put(b)
				}
			}
		}
	}
	for w := 0; w < workers; w++ {
		for i := 0; i < jobs; i++ {
			a, b := solo[w][i], conc[w][i]
			if a == nil || b == nil {
				continue
			}
			same := bytes.Equal(a["out"].(B), b["out"].(B)) && a["fix_ok"] == b["fix_ok"] && a["next_accepted"] == b["next_accepted"] && a["panic"] == b["panic"]
			if i < 3 || !same {
				b["var"] = b["var"].(string) + "_worker_pool"
				rec.Put(b)
			}
		}
	}
}

func min2(a, b int) int {
	if a < b {
		return a
	}
	return b
}
