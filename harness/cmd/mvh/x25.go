package main

import (
	"math/rand"

	"github.com/bluenviron/gomavlib/v3/pkg/x25"
)

func init() { cmds["x25"] = cmdX25 }

func cmdX25(o opts) {
	rec := newRec(o.out)
	r := rand.New(rand.NewSource(o.seed))
	thorough := o.tier == "thorough"

	// (a) all (register, byte) pairs: the register after two bytes from the initial value ranges over
	// all 2^16 values (MC_X25), so the sums of all 3-byte strings are all 2^24 steps.
	var firsts []int
	if thorough {
		for b := 0; b < 256; b++ {
			firsts = append(firsts, b)
		}
	} else {
		firsts = []int{0, 255, r.Intn(256), r.Intn(256), r.Intn(256), r.Intn(256), r.Intn(256), r.Intn(256)}
	}
	for _, b1 := range firsts {
		sums := make([]int, 65536)
		for b2 := 0; b2 < 256; b2++ {
			for b3 := 0; b3 < 256; b3++ {
				h := x25.New()
				// vary the way the three bytes are handed over
				switch (b2 + b3) % 3 {
				case 0:
					h.Write([]byte{byte(b1), byte(b2), byte(b3)})
				case 1:
					h.Write([]byte{byte(b1)})
					h.Write([]byte{byte(b2), byte(b3)})
				default:
					h.Write([]byte{byte(b1), byte(b2)})
					h.Write([]byte{byte(b3)})
				}
				sums[b2*256+b3] = int(h.Sum16())
			}
		}
		rec.Put(M{"e": "X25ALL", "b1": b1, "sums": sums})
	}

	// (b) strings in arbitrary splits; Sum16, Sum, Reset, Size
	n := 150
	if thorough {
		n = 3000
	}
	for i := 0; i < n; i++ {
		ln := r.Intn(301)
		if i < 20 {
			ln = i
		}
		data := rbytes(r, ln)
		var chunks []B
		h := x25.New()
		rest := data
		for len(rest) > 0 {
			k := 1 + r.Intn(len(rest))
			if r.Intn(4) == 0 {
				k = 0 // empty writes are allowed
			}
			chunks = append(chunks, B(append([]byte{}, rest[:k]...)))
			h.Write(rest[:k])
			rest = rest[k:]
		}
		if chunks == nil {
			chunks = []B{}
		}
		prefix := rbytes(r, r.Intn(4))
		sum := h.Sum(append([]byte{}, prefix...))
		s16 := int(h.Sum16())
		again := int(h.Sum16()) // reading the sum does not disturb it
		h.Reset()
		h.Write(data)
		rec.Put(M{"e": "X25S", "chunks": chunks, "sum16": s16, "again": again, "prefix": prefix, "sum": B(sum),
			"after_reset": int(h.Sum16()), "size": h.Size()})
	}
	rec.Close()
}
