package main

import (
	"fmt"
	"io"
	"net"
	"os"
	"runtime"
	"strings"
	"sync"
	"sync/atomic"
	"syscall"
	"time"

	"github.com/bluenviron/gomavlib/v3"
	"github.com/bluenviron/gomavlib/v3/pkg/dialects/common"
	"github.com/bluenviron/gomavlib/v3/pkg/frame"
	"github.com/bluenviron/gomavlib/v3/pkg/message"
)

func ms(n int, def time.Duration) time.Duration {
	if n == 0 {
		return def
	}
	return time.Duration(n) * time.Millisecond
}

func (p *player) buildNode() *gomavlib.Node {
	c := p.sc.Conf
	n := &gomavlib.Node{
		Dialect:                p.dialectFor(),
		OutVersion:             gomavlib.Version(c.Version),
		OutSystemID:            byte(c.Sys),
		OutComponentID:         byte(c.Comp),
		HeartbeatDisable:       c.HbDisable,
		HeartbeatPeriod:        ms(c.HbPeriodMs, 0),
		HeartbeatSystemType:    c.HbSysType,
		HeartbeatAutopilotType: c.HbAutopilot,
		StreamRequestEnable:    c.SrEnable,
		StreamRequestFrequency: c.SrFreq,
		IdleTimeout:            ms(c.IdleMs, 0),
		ReadTimeout:            ms(c.ReadMs, 0),
		WriteTimeout:           ms(c.WriteMs, 0),
	}
	if len(c.InKey) > 0 {
		n.InKey = frame.NewV2Key(c.InKey)
	}
	if len(c.OutKey) > 0 {
		n.OutKey = frame.NewV2Key(c.OutKey)
	}
	for i, e := range p.sc.Endpoints {
		switch e.Kind {
		case "custom":
			p.ctls[i] = newCtl(p, i)
			p.ctls[i].drain = e.Drain
			p.ctls[i].errWithData = e.ErrWithData
			n.Endpoints = append(n.Endpoints, gomavlib.EndpointCustom{ReadWriteCloser: p.ctls[i]})
		case "tcp_server":
			p.addrs[i] = freePort("tcp")
			n.Endpoints = append(n.Endpoints, gomavlib.EndpointTCPServer{Address: p.addrs[i]})
		case "udp_server":
			p.addrs[i] = freePort("udp")
			n.Endpoints = append(n.Endpoints, gomavlib.EndpointUDPServer{Address: p.addrs[i]})
		case "tcp_client":
			l, err := net.Listen("tcp4", "127.0.0.1:0")
			if err != nil {
				fatal("%v", err)
			}
			p.listeners[i] = l
			p.addrs[i] = l.Addr().String()
			p.lmode[i] = "accept"
			if e.LMode != "" {
				p.lmode[i] = e.LMode
			}
			if e.LMode != "" {
				p.rec.Put(M{"e": "LMode", "ep": i, "mode": e.LMode, "t": 0})
			}
			if e.LMode == "refuse" {
				l.Close()
				p.listeners[i] = nil
			} else if e.LMode == "hang" {
				l.Close()
				p.listeners[i] = nil
				p.startHang(i)
			} else {
				go p.acceptLoop(i, l)
			}
			if e.Host != "" {
				// the endpoint is given a domain name; the name points to 127.0.0.1 at first and can be re-pointed to
				// 127.0.0.2, where a second fake server listens on the same port
				_, port, _ := net.SplitHostPort(p.addrs[i])
				l2, err := net.Listen("tcp4", "127.0.0.2:"+port)
				if err != nil {
					fatal("second address: %v", err)
				}
				p.listeners2[i] = l2
				go p.acceptLoop(i, l2)
				p.dnsIP.Store("127.0.0.1")
				if e.DNS != "" {
					p.dnsIP.Store(e.DNS)
				}
				p.startDNS()
				n.Endpoints = append(n.Endpoints, gomavlib.EndpointTCPClient{Address: e.Host + ":" + port})
				continue
			}
			n.Endpoints = append(n.Endpoints, gomavlib.EndpointTCPClient{Address: p.addrs[i]})
		case "udp_client":
			// the fake server of a UDP client: every new source address is one channel instance of the endpoint
			pc, err := net.ListenPacket("udp4", "127.0.0.1:0")
			if err != nil {
				fatal("%v", err)
			}
			p.addrs[i] = pc.LocalAddr().String()
			p.pktConns[i] = pc
			go p.udpPeer(i, pc, false)
			n.Endpoints = append(n.Endpoints, gomavlib.EndpointUDPClient{Address: p.addrs[i]})
		case "udp_broadcast":
			// the node sends to 127.255.255.255:B from 127.0.0.1:L; the player listens on B and feeds L
			pc, err := net.ListenPacket("udp4", "127.255.255.255:0")
			if err != nil {
				fatal("%v", err)
			}
			_, bport, _ := net.SplitHostPort(pc.LocalAddr().String())
			p.addrs[i] = freePort("udp")
			p.pktConns[i] = pc
			la, _ := net.ResolveUDPAddr("udp4", p.addrs[i])
			p.peers[[2]int{i, 1}] = &pktPeer{pc: pc, to: la}
			go p.udpPeer(i, pc, true)
			if e.BcastPort != nil {
				bport = *e.BcastPort
			}
			n.Endpoints = append(n.Endpoints, gomavlib.EndpointUDPBroadcast{BroadcastAddress: "127.255.255.255:" + bport, LocalAddress: p.addrs[i]})
		case "serial":
			p.serialFailsLeft[i] = e.SerialFails
			n.Endpoints = append(n.Endpoints, gomavlib.EndpointSerial{Device: fmt.Sprintf("/dev/verif%d", i), Baud: 57600})
		case "bad_address":
			n.Endpoints = append(n.Endpoints, gomavlib.EndpointTCPServer{Address: "not-an-address"})
		case "busy_port":
			// a port somebody else already listens on: initialization must fail and release the earlier listeners
			l, err := net.Listen("tcp4", "127.0.0.1:0")
			if err != nil {
				fatal("%v", err)
			}
			p.listeners[i] = l
			n.Endpoints = append(n.Endpoints, gomavlib.EndpointTCPServer{Address: l.Addr().String()})
		}
	}
	return n
}

func (p *player) serialOpen(device string, baud int) (io.ReadWriteCloser, error) {
	var ep int
	fmt.Sscanf(device, "/dev/verif%d", &ep)
	p.mu.Lock()
	first := p.peerSeq[ep] == 0
	p.peerSeq[ep]++
	n := p.peerSeq[ep]
	fail := false
	if !first && p.serialFailsLeft[ep] > 0 { // the existence test at initialization always succeeds
		p.serialFailsLeft[ep]--
		fail = true
	}
	p.mu.Unlock()
	p.rec.Put(M{"e": "Attempt", "ep": ep, "n": n, "mode": map[bool]string{true: "fail", false: "ok"}[fail], "probe": first, "t": p.ms()})
	if fail {
		return nil, fmt.Errorf("verif: serial open failed")
	}
	c := newCtl(p, ep)
	p.mu.Lock()
	if !first {
		p.ctls[ep] = c
	}
	p.serials = append(p.serials, c)
	p.mu.Unlock()
	return c, nil
}

func (p *player) ctl(ep int) *ctlRWC {
	p.mu.Lock()
	defer p.mu.Unlock()
	return p.ctls[ep]
}

func (p *player) writerLoop(g int, ops chan func()) {
	for f := range ops {
		f()
	}
	p.wwg.Done()
}

func (p *player) doWrite(s ScStep) {
	call := int(atomic.AddInt64(&p.callSeq, 1))
	var target *gomavlib.Channel
	tdesc := "none"
	switch s.Target {
	case "ep":
		p.mu.Lock()
		target = p.byInst[[2]int{s.Ep, s.Inst}]
		p.mu.Unlock()
		tdesc = fmt.Sprintf("%d/%d", s.Ep, s.Inst)
		if target == nil {
			tdesc = "unknown"
		}
	case "foreign":
		target = &gomavlib.Channel{}
		tdesc = "foreign"
	}
	var m message.Message = tagMsg(s.Tag, s.G)
	if p.sc.Conf.ReuseMsgs && !s.Raw && s.Bad == "" {
		// legal API use: the call has returned before the struct is touched again
		p.mu.Lock()
		rm := p.reuse[s.G]
		if rm == nil {
			rm = tagMsg(0, s.G)
			p.reuse[s.G] = rm
		}
		p.mu.Unlock()
		rm.TimeBootMs = uint32(s.Tag)
		m = rm
	}
	isFrame := strings.HasPrefix(s.Kind, "Frame")
	fv := p.sc.Conf.Version
	if isFrame && s.Bad == "" && s.Tag%3 == 0 {
		fv = 3 - fv // a forwarded frame has the version it was received with, not the one this node writes
	}
	if s.Raw {
		if rw := mustRW(findDialect("common")).GetMessage(252); rw != nil {
			m = rw.Write(m, fv == 2) // an encoded message is encoded for the frame that carries it
		}
	}
	switch s.Bad {
	case "id_outside":
		m = &message.MessageRaw{ID: 999999, Payload: []byte{byte(s.Tag), byte(s.Tag >> 8), byte(s.Tag >> 16), 0, 1}}
	case "v1_big": // a dialect message whose id does not fit a v1 frame
		m = &message.MessageRaw{ID: 300, Payload: []byte{byte(s.Tag), byte(s.Tag >> 8), byte(s.Tag >> 16), 0, 1}}
	}
	foreign := s.Foreign && isFrame && s.Bad == ""
	if foreign {
		// what a router forwards when its own dialect is smaller than the traffic: raw message, id 54321, v2
		fv = 2
		m = &message.MessageRaw{ID: 54321, Payload: []byte{byte(s.Tag), byte(s.Tag >> 8), byte(s.Tag >> 16), 0, byte(s.G), 1, 2, 3, 4, 5}}
	}
	var fr frame.Frame
	if foreign {
		fr = &frame.V2Frame{SequenceNumber: byte(s.Tag), SystemID: 77, ComponentID: 88, Message: m, Checksum: 0x1234}
	} else if isFrame {
		if fv == 1 {
			fr = &frame.V1Frame{SequenceNumber: byte(s.Tag), SystemID: 77, ComponentID: 88, Message: m}
		} else {
			fr = &frame.V2Frame{SequenceNumber: byte(s.Tag), SystemID: 77, ComponentID: 88, Message: m}
		}
		// a forwarded frame carries its own checksum: compute it through FixFrame-free means (C08 covers FixFrame)
		typed := s.Bad == "" && !s.Raw && s.Tag%2 == 1
		if typed {
			// the frame keeps its DECODED message (what a router forwards straight from an event); checksum and signature
			// come from a copy that went through FixFrame
			var cp frame.Frame
			switch f := fr.(type) {
			case *frame.V1Frame:
				c := *f
				cp = &c
			case *frame.V2Frame:
				c := *f
				cp = &c
			}
			if err := p.node.FixFrame(cp); err != nil {
				typed = false
			} else {
				switch f := fr.(type) {
				case *frame.V1Frame:
					f.Checksum = cp.(*frame.V1Frame).Checksum
				case *frame.V2Frame:
					c := cp.(*frame.V2Frame)
					f.Checksum, f.IncompatibilityFlag, f.SignatureLinkID, f.SignatureTimestamp, f.Signature = c.Checksum,
						c.IncompatibilityFlag, c.SignatureLinkID, c.SignatureTimestamp, c.Signature
				}
			}
		}
		if !typed {
			if err := p.node.FixFrame(fr); err != nil && s.Bad == "" && p.sc.Conf.Dialect != "none" {
				p.rec.Put(M{"e": "Note", "what": "FixFrame failed: " + err.Error()})
			}
		}
	}
	p.rec.Put(M{"e": "WInv", "g": s.G, "call": call, "kind": s.Kind, "target": tdesc, "tep": s.Ep, "tinst": s.Inst, "tag": s.Tag,
		"bad": s.Bad, "raw": s.Raw, "fv": fv, "foreign": foreign, "t": p.ms()})
	var err error
	pan := func() (pp bool) {
		defer func() {
			if r := recover(); r != nil {
				pp = true
			}
		}()
		switch s.Kind {
		case "MsgAll":
			err = p.node.WriteMessageAll(m)
		case "MsgTo":
			err = p.node.WriteMessageTo(target, m)
		case "MsgExcept":
			err = p.node.WriteMessageExcept(target, m)
		case "FrameAll":
			err = p.node.WriteFrameAll(fr)
		case "FrameTo":
			err = p.node.WriteFrameTo(target, fr)
		case "FrameExcept":
			err = p.node.WriteFrameExcept(target, fr)
		}
		return false
	}()
	p.touch()
	p.rec.Put(M{"e": "WRet", "g": s.G, "call": call, "err": err != nil, "panic": pan, "t": p.ms()})
	if err == nil && !pan && s.Bad == "" {
		p.pace(s)
	}
}

// pace keeps fewer than 32 items outstanding on every healthy custom endpoint, so that a queue of 64 can
// never legitimately overflow there. The estimate only delays the harness writers; it never decides anything.
func (p *player) pace(s ScStep) {
	p.mu.Lock()
	var eps []int
	for ep := range p.ctls {
		open := false
		for k := range p.opened {
			if k[0] == ep && !p.closedEv[k] {
				open = true
			}
		}
		if !open {
			continue
		}
		switch {
		case strings.HasSuffix(s.Kind, "To"):
			if s.Target == "ep" && s.Ep == ep {
				eps = append(eps, ep)
			}
		case strings.HasSuffix(s.Kind, "Except"):
			if !(s.Target == "ep" && s.Ep == ep) {
				eps = append(eps, ep)
			}
		default:
			eps = append(eps, ep)
		}
	}
	for _, ep := range eps {
		p.expect[ep]++
	}
	want := map[int]int64{}
	for _, ep := range eps {
		want[ep] = p.expect[ep] - 32
	}
	ctls := map[int]*ctlRWC{}
	for _, ep := range eps {
		ctls[ep] = p.ctls[ep]
	}
	p.mu.Unlock()
	dl := time.Now().Add(2 * time.Second)
	for ep, c := range ctls {
		for {
			c.mu.Lock()
			ok := c.okCnt >= want[ep] || c.sick || c.closed
			c.mu.Unlock()
			if ok {
				break
			}
			if time.Now().After(dl) {
				p.rec.Put(M{"e": "Timeout", "what": "pace", "ep": ep, "t": p.ms()})
				return
			}
			time.Sleep(200 * time.Microsecond)
		}
	}
}

func (p *player) run() {
	c := p.sc.Conf
	if c.ReconnectMs > 0 {
		gomavlib.VerifSetReconnectPeriod(time.Duration(c.ReconnectMs) * time.Millisecond)
	}
	gomavlib.VerifSetSerialOpenFunc(p.serialOpen)
	gomavlib.VerifSetHook(p.hook)
	// gates requested before the node starts
	for _, s := range p.sc.Steps {
		if s.Op == "hold_at_start" {
			p.setGate(s.Point, s.Ep, true)
		}
	}
	hdr := c
	if hdr.HbPeriodMs == 0 {
		hdr.HbPeriodMs = 5000
	}
	if hdr.InKey == nil {
		hdr.InKey = B{}
	}
	if hdr.OutKey == nil {
		hdr.OutKey = B{}
	}
	if hdr.IdleSilent == nil {
		hdr.IdleSilent = [][]int{}
	}
	if hdr.IdleActive == nil {
		hdr.IdleActive = [][]int{}
	}
	if hdr.ReconnectMs == 0 {
		hdr.ReconnectMs = 2000
	}
	kinds := []string{}
	for _, e := range p.sc.Endpoints {
		kinds = append(kinds, e.Kind)
	}
	p.rec.Put(M{"e": "Scenario", "name": p.sc.Name, "conf": hdr, "kinds": kinds, "t": 0})
	p.node = p.buildNode()
	baseline := gomavlibGoroutines()
	var err error
	if c.RetryInit && !c.LegacyCtor {
		busy, lerr := net.Listen("tcp4", "127.0.0.1:0")
		if lerr != nil {
			fatal("%v", lerr)
		}
		good := p.node.Endpoints
		p.node.Endpoints = append(append([]gomavlib.EndpointConf{}, good...), gomavlib.EndpointTCPServer{Address: busy.Addr().String()})
		err0 := p.node.Initialize()
		p.rec.Put(M{"e": "InitFirst", "ok": err0 == nil, "err": fmt.Sprint(err0), "t": p.ms()})
		busy.Close()
		if err0 == nil {
			p.node.Close()
			p.rec.Put(M{"e": "Ambiguous", "what": "the first initialization was meant to fail"})
		}
		// fresh transports for the second attempt (the first ones were closed by the failed one), same Node value
		p.node.Endpoints = p.buildNode().Endpoints
	}
	if c.LegacyCtor {
		b := p.node
		var n2 *gomavlib.Node
		n2, err = gomavlib.NewNode(gomavlib.NodeConf{ //nolint:staticcheck
			Endpoints: b.Endpoints, Dialect: b.Dialect, InKey: b.InKey, OutVersion: b.OutVersion, OutSystemID: b.OutSystemID,
			OutComponentID: b.OutComponentID, OutKey: b.OutKey, HeartbeatDisable: b.HeartbeatDisable,
			HeartbeatPeriod: b.HeartbeatPeriod, HeartbeatSystemType: b.HeartbeatSystemType,
			HeartbeatAutopilotType: b.HeartbeatAutopilotType, StreamRequestEnable: b.StreamRequestEnable,
			StreamRequestFrequency: b.StreamRequestFrequency, ReadTimeout: b.ReadTimeout, WriteTimeout: b.WriteTimeout,
			IdleTimeout: b.IdleTimeout})
		if n2 != nil {
			p.node = n2
		}
		p.nodeA.Store(p.node)
	} else {
		p.nodeA.Store(p.node)
		err = p.node.Initialize()
	}
	p.initAt = time.Now()
	p.rec.Put(M{"e": "Init", "ok": err == nil, "err": fmt.Sprint(err), "t": p.ms()})
	if err != nil {
		// a failed initialization must leave nothing behind
		time.Sleep(50 * time.Millisecond)
		p.final(baseline, false)
		return
	}
	go p.consumer()

	for _, s := range p.sc.Steps {
		p.step(s)
	}
	// every scenario ends with Close (a no-op if the scenario already called it)
	p.doClose("main")
	select {
	case <-p.closeDone:
	case <-time.After(10 * time.Second):
		p.rec.Put(M{"e": "Timeout", "what": "close_return", "t": p.ms()})
	}
	// release writers
	for _, ops := range p.writers {
		close(ops)
	}
	wdone := make(chan struct{})
	go func() { p.wwg.Wait(); close(wdone) }()
	select {
	case <-wdone:
	case <-time.After(5 * time.Second):
		p.rec.Put(M{"e": "Timeout", "what": "writers_return", "t": p.ms()})
	}
	// the consumer must see the event channel closed
	p.mu.Lock()
	p.consumerOn = true
	p.mu.Unlock()
	p.consCond.Broadcast()
	evClosed := false
	select {
	case <-p.evClosed:
		evClosed = true
	case <-time.After(5 * time.Second):
		p.rec.Put(M{"e": "Timeout", "what": "events_closed", "t": p.ms()})
	}
	if c.SecondLife && !c.LegacyCtor && evClosed {
		p.secondLife()
	}
	p.final(baseline, evClosed)
}

func (p *player) step(s ScStep) {
	switch s.Op {
	case "hold_at_start":
	case "wait_open":
		n := s.N
		if n == 0 {
			n = 1
		}
		p.waitFor(5*time.Second, "open", func() bool {
			p.mu.Lock()
			defer p.mu.Unlock()
			return p.opened[[2]int{s.Ep, n}]
		})
	case "wait_close":
		n := s.N
		if n == 0 {
			n = 1
		}
		p.waitFor(5*time.Second, "close", func() bool {
			p.mu.Lock()
			defer p.mu.Unlock()
			return p.closedEv[[2]int{s.Ep, n}]
		})
	case "feed":
		b := p.itemBytes(s.Item)
		p.rec.Put(M{"e": "Feed", "ep": s.Ep, "peer": s.Peer, "kind": s.Item.Kind, "tag": s.Item.Tag, "n": len(b),
			"sys": s.Item.Sys, "comp": s.Item.Comp, "autopilot": s.Item.Autopilot, "t": p.ms()})
		if ctl := p.ctl(s.Ep); ctl != nil {
			ctl.feed(chunked(b, s.Chunks))
		} else {
			p.mu.Lock()
			conn := p.peers[[2]int{s.Ep, s.Peer}]
			p.mu.Unlock()
			if conn != nil {
				for _, ch := range chunked(b, s.Chunks) {
					conn.Write(ch) //nolint:errcheck
				}
			} else {
				if atomic.LoadInt32(&p.waitFailed) != 0 {
					// an earlier wait has timed out (that is the recorded outcome): the peer is missing because of it
					p.rec.Put(M{"e": "Note", "what": "feed skipped: no such peer after a failed wait"})
				} else {
					p.rec.Put(M{"e": "Ambiguous", "what": "feed to unknown peer", "ep": s.Ep, "peer": s.Peer})
				}
			}
		}
	case "feed_pack":
		// several items in ONE transport write (one UDP datagram carrying many frames)
		var all []byte
		for _, bi := range s.Items {
			b := p.itemBytes(bi.Item)
			p.rec.Put(M{"e": "Feed", "ep": s.Ep, "peer": s.Peer, "kind": bi.Item.Kind, "tag": bi.Item.Tag, "n": len(b),
				"sys": bi.Item.Sys, "comp": bi.Item.Comp, "autopilot": bi.Item.Autopilot, "t": p.ms()})
			all = append(all, b...)
		}
		if ctl := p.ctl(s.Ep); ctl != nil {
			ctl.feed([][]byte{all})
		} else {
			p.mu.Lock()
			conn := p.peers[[2]int{s.Ep, s.Peer}]
			p.mu.Unlock()
			if conn != nil {
				conn.Write(all) //nolint:errcheck
			} else {
				if atomic.LoadInt32(&p.waitFailed) != 0 {
					// an earlier wait has timed out (that is the recorded outcome): the peer is missing because of it
					p.rec.Put(M{"e": "Note", "what": "feed skipped: no such peer after a failed wait"})
				} else {
					p.rec.Put(M{"e": "Ambiguous", "what": "feed to unknown peer", "ep": s.Ep, "peer": s.Peer})
				}
			}
		}
	case "burst":
		per := map[int][][]byte{}
		for _, bi := range s.Items {
			b := p.itemBytes(bi.Item)
			if bi.Item.Mute {
				p.mu.Lock()
				p.muted[[3]int{bi.Ep, bi.Item.Sys, bi.Item.Comp}] = true
				p.mu.Unlock()
			} else {
				p.rec.Put(M{"e": "Feed", "ep": bi.Ep, "peer": 0, "kind": bi.Item.Kind, "tag": bi.Item.Tag, "n": len(b),
					"sys": bi.Item.Sys, "comp": bi.Item.Comp, "autopilot": bi.Item.Autopilot, "t": p.ms()})
			}
			per[bi.Ep] = append(per[bi.Ep], b)
		}
		var wg sync.WaitGroup
		start := make(chan struct{})
		for ep, chunks := range per {
			ctl := p.ctl(ep)
			if ctl == nil {
				continue
			}
			wg.Add(1)
			go func(ctl *ctlRWC, chunks [][]byte) {
				defer wg.Done()
				<-start
				for _, c := range chunks {
					ctl.feed([][]byte{c})
				}
			}(ctl, chunks)
		}
		if s.AtMs > 0 {
			// everything is built and recorded: the transports get it at a chosen instant of the node's life
			// (a long sleep can be tens of milliseconds late on a busy machine: the last stretch is walked in short steps)
			at := p.initAt.Add(time.Duration(s.AtMs) * time.Millisecond)
			if d := time.Until(at) - 150*time.Millisecond; d > 0 {
				time.Sleep(d)
			}
			for time.Now().Before(at) {
				time.Sleep(500 * time.Microsecond)
			}
			p.rec.Put(M{"e": "Note", "what": fmt.Sprintf("burst released %d ms after Initialize returned", time.Since(p.initAt)/time.Millisecond)})
		}
		close(start)
		wg.Wait()
	case "flood":
		// the application keeps writing large messages to every channel for s.Ms milliseconds, as fast as it can, from
		// writer goroutine g: far more than a peer that does not read can take. Not recorded call by call (nothing of it
		// is ever looked for on a wire): one record when it starts, one when it is over.
		ops := p.writers[s.G]
		if ops == nil {
			ops = make(chan func(), 4096)
			p.writers[s.G] = ops
			p.wwg.Add(1)
			go p.writerLoop(s.G, ops)
		}
		dur := time.Duration(s.Ms) * time.Millisecond
		ops <- func() {
			p.rec.Put(M{"e": "Flood", "g": s.G, "ms": s.Ms, "t": p.ms()})
			m := &common.MessageEncapsulatedData{Seqnr: 1}
			for i := range m.Data {
				m.Data[i] = 0xAA
			}
			n := 0
			pan := false
			func() {
				defer func() {
					if recover() != nil {
						pan = true
					}
				}()
				for dl := time.Now().Add(dur); time.Now().Before(dl); n++ {
					p.node.WriteMessageAll(m) //nolint:errcheck
					if n%64 == 63 {
						time.Sleep(50 * time.Microsecond) // lets the channel's writer take what was queued
					}
				}
			}()
			if pan {
				p.rec.Put(M{"e": "Panic", "where": "flood", "t": p.ms()})
			}
			p.rec.Put(M{"e": "FloodEnd", "g": s.G, "n": n, "t": p.ms()})
		}
	case "read_err":
		want := "injected"
		var rerr error = errInjected
		switch s.Err {
		case "deadline":
			want, rerr = "deadline", os.ErrDeadlineExceeded
		case "net_timeout":
			want, rerr = "deadline", &net.OpError{Op: "read", Net: "tcp", Err: os.ErrDeadlineExceeded}
		case "eof":
			want, rerr = "eof", io.EOF
		case "unexpected_eof":
			want, rerr = "unexpected_eof", io.ErrUnexpectedEOF
		case "closed_pipe":
			want, rerr = "closed_pipe", io.ErrClosedPipe
		case "net_closed":
			want, rerr = "net_closed", net.ErrClosed
		}
		p.rec.Put(M{"e": "ReadErr", "ep": s.Ep, "peer": s.Peer, "cause": want, "t": p.ms()})
		if ctl := p.ctl(s.Ep); ctl != nil {
			ctl.injectReadErr(rerr)
		} else {
			p.mu.Lock()
			peer := s.Peer
			if peer <= 0 {
				peer = p.peerSeq[s.Ep] // the connection accepted last
			}
			conn := p.peers[[2]int{s.Ep, peer}]
			p.mu.Unlock()
			if conn != nil {
				conn.Close()
			}
		}
	case "twrite_mode":
		p.rec.Put(M{"e": "TMode", "ep": s.Ep, "mode": s.Mode, "at": s.At, "t": p.ms()})
		if ctl := p.ctl(s.Ep); ctl != nil {
			ctl.mu.Lock()
			switch s.Err {
			case "deadline":
				ctl.failErr = os.ErrDeadlineExceeded
			case "eof":
				ctl.failErr = io.ErrUnexpectedEOF
			case "closed_pipe":
				ctl.failErr = io.ErrClosedPipe
			case "net_timeout":
				ctl.failErr = &net.OpError{Op: "write", Net: "tcp", Err: os.ErrDeadlineExceeded}
			case "net_error": // an error of the network stack that is not a timeout and not final
				ctl.failErr = &net.OpError{Op: "write", Net: "udp", Err: os.NewSyscallError("sendto", syscall.ENOBUFS)}
			case "conn_refused": // what a connected UDP socket reports once after an ICMP "port unreachable"
				ctl.failErr = &net.OpError{Op: "write", Net: "udp", Err: os.NewSyscallError("write", syscall.ECONNREFUSED)}
			default:
				ctl.failErr = nil
			}
			ctl.mu.Unlock()
			ctl.setMode(s.Mode, s.At)
		}
	case "consumer":
		p.mu.Lock()
		was := p.consumerOn
		p.consumerOn = s.Run
		p.mu.Unlock()
		if was && !s.Run {
			// make sure the consumer is not sitting in its receive any more when the stop is recorded
			select {
			case p.pauseReq <- struct{}{}:
			case <-time.After(time.Second):
			case <-p.evClosed:
			}
		}
		p.rec.Put(M{"e": "Consumer", "run": s.Run, "t": p.ms()})
		p.consCond.Broadcast()
	case "write":
		ops := p.writers[s.G]
		if ops == nil {
			ops = make(chan func(), 4096)
			p.writers[s.G] = ops
			p.wwg.Add(1)
			go p.writerLoop(s.G, ops)
		}
		done := make(chan struct{})
		st := s
		ops <- func() { p.doWrite(st); close(done) }
		if s.Sync {
			select {
			case <-done:
			case <-time.After(5 * time.Second):
				p.rec.Put(M{"e": "Timeout", "what": "write_return", "t": p.ms()})
			}
		}
	case "wait_writes":
		for g, ops := range p.writers {
			done := make(chan struct{})
			ops <- func() { close(done) }
			select {
			case <-done:
			case <-time.After(5 * time.Second):
				p.rec.Put(M{"e": "Timeout", "what": "writers_return", "g": g, "t": p.ms()})
			}
		}
	case "wait_peer":
		// the fake server of a UDP client knows its peer (the node's socket) only once the node has sent something
		p.waitFor(3*time.Second, "peer", func() bool {
			p.mu.Lock()
			defer p.mu.Unlock()
			return p.peers[[2]int{s.Ep, s.Peer}] != nil
		})
	case "hold":
		p.setGate(s.Point, s.Ep, true)
	case "release":
		p.setGate(s.Point, s.Ep, false)
	case "wait_held":
		to := 2 * time.Second
		if s.Ms > 0 {
			to = time.Duration(s.Ms) * time.Millisecond
		}
		if !p.waitHeld(s.Point, s.Ep, to) {
			p.rec.Put(M{"e": "Unreached", "point": s.Point, "ep": s.Ep, "t": p.ms()})
		}
	case "peer_connect":
		addr := p.addrs[s.Ep]
		network := "tcp4"
		if p.sc.Endpoints[s.Ep].Kind == "udp_server" {
			network = "udp4"
		}
		conn, err := net.Dial(network, addr)
		if err != nil {
			p.rec.Put(M{"e": "Note", "what": "peer dial failed: " + err.Error()})
			return
		}
		p.mu.Lock()
		p.peers[[2]int{s.Ep, s.Peer}] = conn
		p.mu.Unlock()
		p.rec.Put(M{"e": "PeerConnect", "ep": s.Ep, "peer": s.Peer, "t": p.ms()})
		if s.NoRead {
			go p.peerSilent(s.Ep, s.Peer, conn)
		} else {
			go p.peerReader(s.Ep, s.Peer, conn)
		}
	case "listener_mode":
		p.mu.Lock()
		p.lmode[s.Ep] = s.Mode
		l := p.listeners[s.Ep]
		p.mu.Unlock()
		p.rec.Put(M{"e": "LMode", "ep": s.Ep, "mode": s.Mode, "t": p.ms()})
		if s.Mode != "hang" {
			p.stopHang(s.Ep)
		}
		if s.Mode == "hang" {
			if l != nil {
				l.Close()
				p.mu.Lock()
				p.listeners[s.Ep] = nil
				p.mu.Unlock()
			}
			p.startHang(s.Ep)
			return
		}
		p.mu.Lock()
		l = p.listeners[s.Ep]
		p.mu.Unlock()
		if s.Mode == "refuse" && l != nil {
			l.Close()
			p.mu.Lock()
			p.listeners[s.Ep] = nil
			p.mu.Unlock()
		}
		if s.Mode == "accept" && l == nil {
			nl, err := net.Listen("tcp4", p.addrs[s.Ep])
			if err == nil {
				p.mu.Lock()
				p.listeners[s.Ep] = nl
				p.mu.Unlock()
				go p.acceptLoop(s.Ep, nl)
			}
		}
	case "beacon":
		// one frame object (already fixed) written again and again, and to one channel after the other, without waiting
		// for the wires: what a router forwarding a received frame to a chosen subset of channels does. Only used under
		// the race detector (the tags repeat, so the wire monitor is not applied to these scenarios).
		fr := &frame.V2Frame{SequenceNumber: 1, SystemID: 77, ComponentID: 88, Message: tagMsg(s.Tag, 1)}
		if p.sc.Conf.Version == 1 {
			p.rec.Put(M{"e": "Note", "what": "beacon uses a v2 frame"})
		}
		if err := p.node.FixFrame(fr); err != nil {
			p.rec.Put(M{"e": "Note", "what": "beacon FixFrame: " + err.Error()})
			return
		}
		p.mu.Lock()
		var chans []*gomavlib.Channel
		for _, c := range p.byInst {
			chans = append(chans, c)
		}
		p.mu.Unlock()
		for i := 0; i < s.N; i++ {
			for _, c := range chans {
				p.node.WriteFrameTo(c, fr) //nolint:errcheck
			}
			if i%3 == 0 {
				p.node.WriteFrameAll(fr) //nolint:errcheck
			}
		}
	case "dns_point":
		p.dnsIP.Store(s.Mode)
		p.rec.Put(M{"e": "DNSPoint", "ip": s.Mode, "t": p.ms()})
	case "sleep":
		time.Sleep(time.Duration(s.Ms) * time.Millisecond)
	case "quiesce":
		b := s.Ms
		if b == 0 {
			b = 3000
		}
		p.touch() // at least one idle interval from now
		if p.quiesce(60*time.Millisecond, time.Duration(b)*time.Millisecond) {
			// nothing moved for a whole idle interval: what was submitted before has had its chance to reach the wires
			p.rec.Put(M{"e": "Quiesced", "t": p.ms()})
		}
	case "close_on_tag":
		p.closeFromLoopOn = s.Tag
	case "close":
		if s.From == "async" {
			go p.doClose("async")
		} else {
			p.doClose("main")
		}
	case "wait_closed":
		select {
		case <-p.closeDone:
		case <-time.After(10 * time.Second):
			p.rec.Put(M{"e": "Timeout", "what": "close_return", "t": p.ms()})
		}
	}
}

// startHang makes connection attempts to the endpoint's address hang: a listening socket with a backlog of one whose
// accept queue is kept full never answers further SYNs (what a firewall or a dead server looks like to a dialer).
func (p *player) startHang(ep int) {
	addr, err := net.ResolveTCPAddr("tcp4", p.addrs[ep])
	if err != nil {
		return
	}
	fd, err := syscall.Socket(syscall.AF_INET, syscall.SOCK_STREAM, 0)
	if err != nil {
		p.rec.Put(M{"e": "Note", "what": "hang socket: " + err.Error()})
		return
	}
	syscall.SetsockoptInt(fd, syscall.SOL_SOCKET, syscall.SO_REUSEADDR, 1) //nolint:errcheck
	sa := &syscall.SockaddrInet4{Port: addr.Port}
	copy(sa.Addr[:], addr.IP.To4())
	if err := syscall.Bind(fd, sa); err != nil {
		p.rec.Put(M{"e": "Note", "what": "hang bind: " + err.Error()})
		syscall.Close(fd)
		return
	}
	syscall.Listen(fd, 0) //nolint:errcheck
	p.mu.Lock()
	p.hangFds[ep] = fd
	p.mu.Unlock()
	// fill the accept queue
	for i := 0; i < 3; i++ {
		c, err := net.DialTimeout("tcp4", p.addrs[ep], 50*time.Millisecond)
		if err == nil {
			p.mu.Lock()
			p.hangConns[ep] = append(p.hangConns[ep], c)
			p.mu.Unlock()
		}
	}
	p.rec.Put(M{"e": "LMode", "ep": ep, "mode": "hang", "t": p.ms()})
}

func (p *player) stopHang(ep int) {
	p.mu.Lock()
	fd, ok := p.hangFds[ep]
	conns := p.hangConns[ep]
	delete(p.hangFds, ep)
	delete(p.hangConns, ep)
	p.mu.Unlock()
	for _, c := range conns {
		c.Close()
	}
	if ok {
		syscall.Close(fd)
	}
}

// framesChanged: how many of the frames delivered in events no longer are what they were when they were delivered
func (p *player) framesChanged() int {
	n := 0
	p.mu.Lock()
	kept := append([]keptFrame{}, p.kept...)
	p.mu.Unlock()
	for _, k := range kept {
		if frameDigest(k.fr) != k.digest {
			n++
		}
	}
	return n
}

// socketsAtStart: the sockets this process was started with (an inherited standard stream can be one)
var socketsAtStart = openSockets()

func openSockets() map[string]bool {
	out := map[string]bool{}
	ents, err := os.ReadDir("/proc/self/fd")
	if err != nil {
		return out
	}
	for _, e := range ents {
		if l, err := os.Readlink("/proc/self/fd/" + e.Name()); err == nil && strings.HasPrefix(l, "socket:") {
			out[l] = true
		}
	}
	return out
}

// countSockets: sockets open in this process that it was not started with
func countSockets() int {
	n := 0
	for l := range openSockets() {
		if !socketsAtStart[l] {
			n++
		}
	}
	return n
}

func gomavlibGoroutines() int {
	buf := make([]byte, 1<<20)
	n := runtime.Stack(buf, true)
	cnt := 0
	for _, g := range strings.Split(string(buf[:n]), "\n\n") {
		if strings.Contains(g, "gomavlib/v3.") || strings.Contains(g, "gomavlib/v3/pkg") || strings.Contains(g, "pion/transport") {
			cnt++
		}
	}
	return cnt
}

func leakedStacks() []string {
	buf := make([]byte, 1<<20)
	n := runtime.Stack(buf, true)
	var out []string
	for _, g := range strings.Split(string(buf[:n]), "\n\n") {
		if strings.Contains(g, "gomavlib/v3.") || strings.Contains(g, "gomavlib/v3/pkg") || strings.Contains(g, "pion/transport") {
			lines := strings.Split(g, "\n")
			if len(lines) > 7 {
				lines = lines[:7]
			}
			out = append(out, strings.Join(lines, " | "))
		}
	}
	return out
}

// secondLife: the Node value that has just been closed is initialized once more (fresh transports, same addresses:
// the ports of the first life must be free again) and closed again. If the second Initialize is refused nothing is
// claimed; if it succeeds this is a running node like any other: Close must return and end the event channel, and
// what final() measures afterwards (goroutines, ports, sockets) covers both lives.
func (p *player) secondLife() {
	p.node.Endpoints = p.buildNode().Endpoints
	err := p.node.Initialize()
	p.rec.Put(M{"e": "SecondInit", "ok": err == nil, "err": fmt.Sprint(err), "t": p.ms()})
	if err != nil {
		return
	}
	evDone := make(chan struct{})
	go func() {
		for range p.node.Events() {
		}
		close(evDone)
	}()
	time.Sleep(30 * time.Millisecond)
	done := make(chan struct{})
	go func() {
		p.node.Close()
		close(done)
	}()
	select {
	case <-done:
		p.rec.Put(M{"e": "SecondCloseRet", "t": p.ms()})
	case <-time.After(5 * time.Second):
		p.rec.Put(M{"e": "Timeout", "what": "close_return", "life": 2, "t": p.ms()})
	}
	select {
	case <-evDone:
	case <-time.After(2 * time.Second):
		p.rec.Put(M{"e": "Timeout", "what": "events_closed", "life": 2, "t": p.ms()})
	}
}

func (p *player) final(baseline int, evClosed bool) {
	// goroutines: poll up to 2 s
	left := 0
	dl := time.Now().Add(2 * time.Second)
	for {
		left = gomavlibGoroutines() - baseline
		if left <= 0 || time.Now().After(dl) {
			break
		}
		time.Sleep(5 * time.Millisecond)
	}
	var stacks []string
	if left > 0 {
		stacks = leakedStacks()
	}
	if stacks == nil {
		stacks = []string{}
	}
	// listening ports re-bindable
	rebound := true
	for i, e := range p.sc.Endpoints {
		switch e.Kind {
		case "tcp_server":
			l, err := net.Listen("tcp4", p.addrs[i])
			if err != nil {
				rebound = false
			} else {
				l.Close()
			}
		case "udp_server", "udp_broadcast":
			l, err := net.ListenPacket("udp4", p.addrs[i])
			if err != nil {
				rebound = false
			} else {
				l.Close()
			}
		}
	}
	for _, pc := range p.pktConns {
		pc.Close()
	}
	closes := []int{}
	for i, e := range p.sc.Endpoints {
		if e.Kind == "custom" {
			c := p.ctl(i)
			c.mu.Lock()
			closes = append(closes, c.closes)
			c.mu.Unlock()
		}
	}
	for _, l := range p.listeners {
		if l != nil {
			l.Close()
		}
	}
	for _, l := range p.listeners2 {
		l.Close()
	}
	for ep := range p.sc.Endpoints {
		p.stopHang(ep)
	}
	// every connection the node accepted or dialled must have been released: the harness side sees its end
	notReleased := 0
	dl2 := time.Now().Add(2 * time.Second)
	for {
		notReleased = 0
		p.mu.Lock()
		for k, c := range p.peers {
			// UDP has no connection to tear down: only TCP peers can see the node's side go away
			if c != nil && !p.peerEnded[k] && c.LocalAddr().Network() == "tcp" {
				notReleased++
			}
		}
		p.mu.Unlock()
		if notReleased == 0 || time.Now().After(dl2) {
			break
		}
		time.Sleep(5 * time.Millisecond)
	}
	// descriptors: once the harness has closed every socket of its own, no socket may be left open in this process
	// (a connection whose peer went away first must be closed by the node all the same)
	p.mu.Lock()
	for _, c := range p.peers {
		if c != nil {
			c.Close()
		}
	}
	p.mu.Unlock()
	socketsLeft := 0
	dl3 := time.Now().Add(time.Second)
	for {
		socketsLeft = countSockets()
		if socketsLeft == 0 || time.Now().After(dl3) {
			break
		}
		time.Sleep(5 * time.Millisecond)
	}
	serialOpen := 0
	p.mu.Lock()
	for _, c := range p.serials {
		c.mu.Lock()
		if c.closes == 0 {
			serialOpen++
		}
		c.mu.Unlock()
	}
	p.mu.Unlock()
	p.rec.Put(M{"e": "Final", "goroutines_left": left, "stacks": stacks, "ports_rebound": rebound, "custom_close": closes,
		"events_closed": evClosed, "conns_not_released": notReleased, "serial_not_closed": serialOpen,
		"frames_changed_after_delivery": p.framesChanged(), "sockets_left": socketsLeft, "t": p.ms()})
}
