package main

import (
	"bytes"
	"errors"
	"io"
	"math/rand"
	"net"
	"os"
	"reflect"
	"sync"
	"time"

	"github.com/bluenviron/gomavlib/v3/pkg/dialect"
	"github.com/bluenviron/gomavlib/v3/pkg/frame"
	"github.com/bluenviron/gomavlib/v3/pkg/message"
	"github.com/bluenviron/gomavlib/v3/pkg/streamwriter"
	"github.com/bluenviron/gomavlib/v3/pkg/timednetconn"
)

func init() { cmds["wlink"] = cmdWLink }

var sigRef = time.Date(2015, 1, 1, 0, 0, 0, 0, time.UTC)

// ticks: 10-microsecond units since 2015-01-01 UTC, the unit the property names
func ticksNow() uint64 { return uint64(time.Now().UTC().Sub(sigRef)/time.Microsecond) / 10 }

type WCfg struct {
	V    int `json:"v"`
	Sys  int `json:"sys"`
	Comp int `json:"comp"`
	Key  B   `json:"key"`
	Link int `json:"link"`
}

// flakySink fails the next transport write with a chosen error (nothing is written then)
type flakySink struct {
	recWriter
	failNext error
	partial  bool // the failing call takes the first half of what it is given (a deadline expiring in the middle of a frame)
	took     int  // how much the failing call took (-1: no failing call yet)
}

func (s *flakySink) Write(p []byte) (int, error) {
	if s.failNext != nil {
		err := s.failNext
		s.failNext = nil
		s.calls++
		if s.partial && len(p) > 1 {
			s.took = len(p) / 2
			s.buf.Write(p[:s.took])
			return s.took, err
		}
		s.took = 0
		return 0, err
	}
	return s.recWriter.Write(p)
}

// sinkConn: the sink as a net.Conn, for links that write through the deadline wrapper the node puts around its sockets
type sinkConn struct{ s *flakySink }

func (c sinkConn) Read([]byte) (int, error)         { return 0, io.EOF }
func (c sinkConn) Write(p []byte) (int, error)      { return c.s.Write(p) }
func (c sinkConn) Close() error                     { return nil }
func (c sinkConn) LocalAddr() net.Addr              { return &net.TCPAddr{} }
func (c sinkConn) RemoteAddr() net.Addr             { return &net.TCPAddr{} }
func (c sinkConn) SetDeadline(time.Time) error      { return nil }
func (c sinkConn) SetReadDeadline(time.Time) error  { return nil }
func (c sinkConn) SetWriteDeadline(time.Time) error { return nil }

type deadlineErr struct{}

func (deadlineErr) Error() string   { return "verif: i/o timeout" }
func (deadlineErr) Timeout() bool   { return true }
func (deadlineErr) Temporary() bool { return true }
func (deadlineErr) Unwrap() error   { return os.ErrDeadlineExceeded }

var failKinds = map[string]error{"generic": errors.New("verif: write failed"), "deadline": deadlineErr{}, "eof": io.EOF,
	"closed": net.ErrClosed, "short": io.ErrShortWrite,
	// what a TCP connection reports when the write deadline expires after part of the buffer went out
	"partial_deadline": &net.OpError{Op: "write", Net: "tcp", Err: os.ErrDeadlineExceeded}}

type witem struct {
	fail    string // transport failure injected for this write ("" = none)
	kind    string
	d       int
	vals    [][]B
	msg     message.Message
	id      int
	payload B
}

type linkWriter interface {
	write(m message.Message) error
}

type swLink struct{ w *streamwriter.Writer }

func (l swLink) write(m message.Message) error { return l.w.Write(m) }

type fwLink struct{ w *frame.Writer }

func (l fwLink) write(m message.Message) error { return l.w.WriteMessage(m) }

func keyOf(b B) *frame.V2Key {
	if len(b) == 0 {
		return nil
	}
	return frame.NewV2Key(b)
}

func mkLink(impl string, cfg WCfg, drw *dialect.ReadWriter, sink io.Writer) (lw linkWriter, ok bool, panicked bool) {
	defer func() {
		if r := recover(); r != nil {
			ok, panicked = false, true
		}
	}()
	// links with an even system id write through timednetconn (what a node puts around its TCP and UDP sockets)
	if fs, isFlaky := sink.(*flakySink); isFlaky && cfg.Sys%2 == 0 {
		sink = timednetconn.New(time.Second, time.Second, sinkConn{fs})
	}
	if impl == "streamwriter" {
		fw := &frame.Writer{ByteWriter: sink, DialectRW: drw}
		if err := fw.Initialize(); err != nil {
			fatal("frame writer: %v", err)
		}
		sw := &streamwriter.Writer{FrameWriter: fw, Version: streamwriter.Version(cfg.V), SystemID: byte(cfg.Sys),
			ComponentID: byte(cfg.Comp), SignatureLinkID: byte(cfg.Link), Key: keyOf(cfg.Key)}
		if err := sw.Initialize(); err != nil {
			return nil, false, false
		}
		return swLink{sw}, true, false
	}
	if impl == "readwriter" || impl == "newreadwriter" {
		// frame.ReadWriter is a third way to get a message writer (its reader half idles on an empty input)
		brw := struct {
			io.Reader
			io.Writer
		}{bytes.NewReader(nil), sink}
		var rw *frame.ReadWriter
		var err error
		if impl == "readwriter" {
			rw = &frame.ReadWriter{ByteReadWriter: brw, DialectRW: drw, OutVersion: frame.WriterOutVersion(cfg.V),
				OutSystemID: byte(cfg.Sys), OutComponentID: byte(cfg.Comp), OutSignatureLinkID: byte(cfg.Link), OutKey: keyOf(cfg.Key)}
			err = rw.Initialize()
		} else {
			rw, err = frame.NewReadWriter(frame.ReadWriterConf{ //nolint:staticcheck
				ReadWriter: brw, DialectRW: drw, OutVersion: frame.WriterOutVersion(cfg.V),
				OutSystemID: byte(cfg.Sys), OutComponentID: byte(cfg.Comp), OutSignatureLinkID: byte(cfg.Link), OutKey: keyOf(cfg.Key)})
		}
		if err != nil {
			return nil, false, false
		}
		return fwLink{rw.Writer}, true, false
	}
	fw := &frame.Writer{ByteWriter: sink, DialectRW: drw, OutVersion: frame.WriterOutVersion(cfg.V),
		OutSystemID: byte(cfg.Sys), OutComponentID: byte(cfg.Comp), OutSignatureLinkID: byte(cfg.Link), OutKey: keyOf(cfg.Key)}
	if err := fw.Initialize(); err != nil {
		return nil, false, false
	}
	return fwLink{fw}, true, false
}

func runLink(rec *Rec, impl string, cfg WCfg, drw *dialect.ReadWriter, dl []int, items []witem, tag string) {
	sink := &flakySink{}
	lw, ok, pan := mkLink(impl, cfg, drw, sink)
	if !ok {
		rec.Put(M{"e": "WINIT", "impl": impl, "cfg": cfg, "init_ok": false, "panic": pan})
		return
	}
	var ws []M
	for _, it := range items {
		before := sink.buf.Len()
		var m message.Message
		w := M{"kind": it.kind}
		if it.kind == "msg" {
			m = newMsg(it.msg, it.vals)
			w["d"], w["vals"] = it.d, it.vals
		} else {
			m = &message.MessageRaw{ID: uint32(it.id), Payload: append([]byte{}, it.payload...)}
			w["id"], w["payload"] = it.id, it.payload
		}
		sink.took = -1
		if it.fail != "" {
			sink.failNext = failKinds[it.fail]
			sink.partial = it.fail == "partial_deadline"
		}
		w["inj"] = it.fail != ""
		t0 := ticksNow()
		err, p := func() (err error, p bool) {
			defer func() {
				if r := recover(); r != nil {
					p = true
				}
			}()
			return lw.write(m), false
		}()
		t1 := ticksNow()
		sink.failNext = nil
		w["ok"] = err == nil && !p
		w["panic"] = p
		w["out"] = B(append([]byte{}, sink.buf.Bytes()[before:]...))
		w["took"] = sink.took
		w["t0"], w["t1"] = le(t0, 6), le(t1, 6)
		ws = append(ws, w)
	}
	if dl == nil {
		dl = []int{}
	}
	rec.Put(M{"e": "WLINK", "impl": impl, "cfg": cfg, "dl": dl, "writes": ws, "tag": tag})
}

func cmdWLink(o opts) {
	rec := newRec(o.out)
	r := rand.New(rand.NewSource(o.seed))
	thorough := o.tier == "thorough"
	mode := o.aux // c09 | c06 | c07

	protos := allProtos()
	ix := defIndex(protos)
	com := findDialect("common")
	if mode == "c09" {
		// every shipped message plus the user messages: ids up to 0xFFFFFF take part in v2 histories
		comPlus := findDialect("allplus")
		com = &dialect.Dialect{Version: comPlus.Version}
		for _, m := range comPlus.Messages {
			if mustRW(findDialect("common")).GetMessage(m.GetID()) != nil || m.GetID() >= 61000 {
				com.Messages = append(com.Messages, m)
			}
		}
	}
	drw := mustRW(com)
	dl := dialectIndices(com, ix)
	var small []message.Message // message types with small payloads keep the traces light
	for _, m := range com.Messages {
		b, _ := sizesOf(defOf(m))
		if b <= 40 {
			small = append(small, m)
		}
	}
	notInCommon := func() message.Message { // a shipped message outside the common dialect
		for _, p := range protos {
			if drw.GetMessage(p.GetID()) == nil {
				return p
			}
		}
		return nil
	}()

	genItems := func(n int, v int, refusals bool) []witem {
		var items []witem
		for i := 0; i < n; i++ {
			m := small[r.Intn(len(small))]
			if i%50 == 0 {
				m = com.Messages[r.Intn(len(com.Messages))]
			}
			sh := shapes(defOf(m))
			vals := randVals(r, sh, r.Intn(2) == 0)
			c := r.Intn(100)
			switch {
			case refusals && c < 3: // raw id outside the dialect
				items = append(items, witem{kind: "raw", id: 999999, payload: rbytes(r, 3)})
			case refusals && c < 5 && notInCommon != nil: // decoded message outside the dialect
				items = append(items, witem{kind: "msg", d: ix[reflect.TypeOf(notInCommon)], msg: notInCommon,
					vals: zeroVals(notInCommon)})
			case refusals && c < 9: // the transport fails this write (timeouts, closed pipes, generic errors): nothing goes out
				items = append(items, witem{kind: "msg", d: ix[reflect.TypeOf(m)], msg: m, vals: vals,
					fail: []string{"generic", "deadline", "eof", "closed", "short", "partial_deadline", "partial_deadline"}[r.Intn(7)]})
			case c < 25: // raw (already encoded) message of the dialect
				rwm := drw.GetMessage(m.GetID())
				pl, _ := safeWrite(rwm, newMsg(m, vals), v == 2)
				items = append(items, witem{kind: "raw", id: int(m.GetID()), payload: pl})
			default:
				items = append(items, witem{kind: "msg", d: ix[reflect.TypeOf(m)], msg: m, vals: vals})
			}
		}
		return items
	}

	// largest frames: payloads of exactly 255 bytes that do not shrink (last byte non-zero), as a message and raw
	largest := func() []witem {
		for _, m := range com.Messages {
			if _, ext := sizesOf(defOf(m)); ext == 255 {
				sh := shapes(defOf(m))
				full := make([][]B, len(sh))
				for i, s := range sh {
					if s.isStr {
						full[i] = []B{B(bytesOf('Z', s.strlen))}
					} else {
						full[i] = make([]B, s.n)
						for k := range full[i] {
							full[i][k] = B(bytesOf(0x7E, s.gosize))
						}
					}
				}
				rwm := drw.GetMessage(m.GetID())
				pl, _ := safeWrite(rwm, newMsg(m, full), true)
				return []witem{{kind: "msg", d: ix[reflect.TypeOf(m)], msg: m, vals: full},
					{kind: "raw", id: int(m.GetID()), payload: pl}}
			}
		}
		return nil
	}

	key1 := rbytes(r, 32)
	switch mode {
	case "c09":
		// initialisation: every combination
		for _, v := range []int{0, 1, 2} {
			for _, sys := range []int{0, 1, 255} {
				for _, comp := range []int{0, 1, 7} {
					for _, k := range []B{{}, key1} {
						cfg := WCfg{V: v, Sys: sys, Comp: comp, Key: k, Link: 3}
						sink := &recWriter{}
						_, ok, pan := mkLink("streamwriter", cfg, drw, sink)
						rec.Put(M{"e": "WINIT", "impl": "streamwriter", "cfg": cfg, "init_ok": ok, "panic": pan})
					}
				}
			}
		}
		n := 700
		links := 4
		if thorough {
			links = 24
		}
		// the links share one dialect (as the channels of a node do) and write at the same time, each from its own
		// goroutine: items are drawn first, then all links of a group of four run together
		var lwg sync.WaitGroup
		for l := 0; l < links; l++ {
			v := 1 + l%2
			cfg := WCfg{V: v, Sys: 1 + r.Intn(255), Comp: []int{0, 1, 7, 255}[r.Intn(4)], Key: B{}, Link: 0}
			impl := []string{"streamwriter", "framewriter", "streamwriter", "readwriter"}[l%4]
			if thorough {
				impl = []string{"streamwriter", "framewriter", "readwriter", "newreadwriter"}[(l/2)%4]
			}
			tag, items := "long", []witem(nil)
			if l%8 == 5 || (!thorough && l == 3) { // a short keyed link: signatures cost the monitor SHA-256 per frame
				cfg.V, cfg.Key, cfg.Link = 2, key1, 1+r.Intn(255)
				tag, items = "keyed", genItems(60, 2, true)
			} else {
				items = genItems(n, v, l%4 != 0)
			}
			// the largest frame a link can carry, in the middle of the history and as its last frame (v2 only: the
			// message that fills 255 bytes has an id above 255 or not - a v1 link refuses it then, which is a refusal like others)
			if v == 2 || cfg.V == 2 {
				big := largest()
				mid := len(items) / 2
				items = append(items[:mid:mid], append(append([]witem{}, big...), items[mid:]...)...)
				items = append(items, big...)
			}
			lwg.Add(1)
			go func() {
				defer lwg.Done()
				runLink(rec, impl, cfg, drw, dl, items, tag)
			}()
			if l%4 == 3 {
				lwg.Wait()
			}
		}
		lwg.Wait()
		// short histories with refusals at every position
		for pos := 0; pos < 6; pos++ {
			for _, v := range []int{1, 2} {
				items := genItems(6, v, false)
				bad := witem{kind: "raw", id: 999999, payload: B{1}}
				if v == 1 && pos%2 == 1 { // a dialect message whose id does not fit v1
					for _, m := range com.Messages {
						if m.GetID() > 255 {
							bad = witem{kind: "msg", d: ix[reflect.TypeOf(m)], msg: m, vals: zeroVals(m)}
							break
						}
					}
				}
				items[pos] = bad
				runLink(rec, []string{"streamwriter", "framewriter"}[pos%2], WCfg{V: v, Sys: 9, Comp: 0, Key: B{}, Link: 0},
					drw, dl, items, "refusal")
			}
		}
	case "c06", "c07":
		n := 40
		links := 4
		if thorough {
			n, links = 120, 12
		}
		if mode == "c07" {
			n = 500
			if thorough {
				n = 2000
			}
			links = 2
		}
		for l := 0; l < links; l++ {
			cfg := WCfg{V: 2, Sys: 1 + r.Intn(255), Comp: r.Intn(256), Key: rbytes(r, 32), Link: 1 + r.Intn(255)}
			if l%4 == 1 && l > 4 {
				cfg.Link = 0
			}
			if l == 0 {
				cfg.Key = make(B, 32)
			}
			impl := []string{"streamwriter", "framewriter", "readwriter", "newreadwriter"}[l%4]
			items := genItems(n, 2, false)
			if mode == "c07" {
				// timestamps only: tiny messages so the SHA work per frame stays at two blocks
				for i := range items {
					m := small[0]
					items[i] = witem{kind: "msg", d: ix[reflect.TypeOf(m)], msg: m, vals: zeroVals(m)}
				}
			}
			if mode == "c06" {
				items = append(items, largest()...)
			}
			runLink(rec, impl, cfg, drw, dl, items, "keyed")
		}
	}
	rec.Close()
}
