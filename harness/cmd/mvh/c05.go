package main

import (
	"math/rand"
)

func init() { cmds["c05"] = cmdC05 }

// frameBytes marshals a generated frame with the real writer (the writer's layout is C01's subject).
func frameBytes(j FrameJ) []byte {
	out, _, errS, pan := writeFrame(j, nil)
	if errS != "" || pan {
		fatal("frameBytes: %v %v", errS, pan)
	}
	return out
}

// regionCuts lists the offsets of region boundaries inside a frame (header, payload, checksum, signature).
func regionCuts(j FrameJ, base int) []int {
	n := len(j.Payload)
	if j.V == 1 {
		return []int{base + 1, base + 3, base + 6, base + 6 + n/2, base + 6 + n, base + 7 + n, base + 8 + n}
	}
	c := []int{base + 1, base + 5, base + 10, base + 10 + n/2, base + 10 + n, base + 11 + n, base + 12 + n}
	if j.IFlag&1 != 0 {
		c = append(c, base+13+n, base+19+n, base+25+n)
	}
	return c
}

func nonMarker(r *rand.Rand, n int) []byte {
	b := make([]byte, n)
	for i := range b {
		for {
			b[i] = byte(r.Intn(256))
			if b[i] != 0xFE && b[i] != 0xFD {
				break
			}
		}
	}
	return b
}

func cmdC05(o opts) {
	rec := newRec(o.out)
	r := rand.New(rand.NewSource(o.seed))
	thorough := o.tier == "thorough"
	em := &streamEmitter{rec: rec}
	none := streamCfg{}

	// 1. all strings over {FE, FD, 00, 01, 02} up to a length bound, whole and byte-by-byte
	alpha := []byte{0xFE, 0xFD, 0x00, 0x01, 0x02}
	maxLen := 5
	if thorough {
		maxLen = 7
	}
	var walk func(prefix []byte)
	cnt := 0
	walk = func(prefix []byte) {
		g := em.group()
		data := append([]byte{}, prefix...)
		em.put(g, data, -1, "eof", nil, false, none, false, "small")
		if len(data) > 1 {
			em.put(g, data, -1, "eof", []int{1}, false, none, false, "small")
		}
		cnt++
		// a transport error at a seeded offset for a sample of them
		if len(data) > 0 && cnt%7 == int(o.seed%7) {
			g2 := em.group()
			at := r.Intn(len(data) + 1)
			em.put(g2, data, at, "sentinel", nil, false, none, false, "small_err")
			em.put(g2, data, at, "sentinel", []int{1}, true, none, false, "small_err")
		}
		if len(prefix) == maxLen {
			return
		}
		for _, a := range alpha {
			walk(append(prefix, a))
		}
	}
	walk(nil)

	// 2. structured streams
	ns := 20
	if thorough {
		ns = 300
	}
	for s := 0; s < ns; s++ {
		var data []byte
		var cuts []int
		clean := s%3 == 0
		parts := 1 + r.Intn(4)
		for p := 0; p < parts; p++ {
			kind := r.Intn(7)
			if clean {
				kind = r.Intn(2) // junk without markers, or a valid frame
			}
			v := 1 + r.Intn(2)
			signed := v == 2 && r.Intn(2) == 0
			plen := []int{0, 1, 2, 3, 9, 40, 255}[r.Intn(7)]
			if r.Intn(3) == 0 {
				plen = r.Intn(30)
			}
			j := mkFrame(r, v, signed, plen)
			if r.Intn(2) == 0 { // marker-laden payload
				for i := range j.Payload {
					j.Payload[i] = []byte{0xFE, 0xFD, 0, 9}[r.Intn(4)]
				}
			}
			fb := frameBytes(j)
			switch kind {
			case 0: // junk without markers
				data = append(data, nonMarker(r, 1+r.Intn(6))...)
				if clean || r.Intn(2) == 0 {
					cuts = append(cuts, regionCuts(j, len(data))...)
					data = append(data, fb...)
				}
			case 1: // valid frame
				cuts = append(cuts, regionCuts(j, len(data))...)
				data = append(data, fb...)
			case 2: // truncated frame followed by something else
				k := 1 + r.Intn(len(fb)-1)
				cuts = append(cuts, len(data)+k)
				data = append(data, fb[:k]...)
			case 3: // corrupted length byte
				fb[1] = byte(r.Intn(256))
				data = append(data, fb...)
			case 4: // unknown incompat flag (v2) / random second byte
				if v == 2 {
					fb[2] = byte(2 + r.Intn(254))
				}
				data = append(data, fb...)
			case 5: // junk with markers
				for i := 0; i < 1+r.Intn(8); i++ {
					data = append(data, []byte{0xFE, 0xFD, 0x00, 0x05, 0xFF}[r.Intn(5)])
				}
			case 6: // two frames back to back
				cuts = append(cuts, regionCuts(j, len(data))...)
				data = append(data, fb...)
				data = append(data, fb...)
			}
		}
		g := em.group()
		for _, sc := range chunkings(r, len(data), cuts, thorough) {
			em.put(g, data, -1, "eof", sc, false, none, clean, "struct")
		}
		// a transport error at every offset (quick: a stride)
		stride := 1
		if !thorough && len(data) > 60 {
			stride = len(data)/60 + 1
		}
		for at := 0; at <= len(data); at += stride {
			g2 := em.group()
			kind := []string{"sentinel", "eof"}[at%2]
			em.put(g2, data, at, kind, nil, false, none, false, "struct_err")
			em.put(g2, data, at, kind, []int{1 + r.Intn(5)}, at%4 < 2, none, false, "struct_err")
		}
	}
	// 3. rejected input for a very long time (a peer that speaks something else for 66 000 bytes: as many calls, each one a
	//    non-fatal parse error), then valid frames: every call still returns a frame, a parse error or the transport's error
	{
		data := nonMarker(r, 66000+r.Intn(500))
		for k := 0; k < 2; k++ {
			j := mkFrame(r, 2, k == 1, 9)
			data = append(data, frameBytes(j)...)
			data = append(data, nonMarker(r, 3)...)
		}
		em.put(em.group(), data, -1, "eof", []int{1 + r.Intn(4000)}, false, streamCfg{bufSize: 512}, true, "long_noise_then_frames")
	}
	rec.Close()
}
