package main

import (
	"encoding/json"
	"math/rand"
	"os"
	"reflect"
	"strings"

	"github.com/bluenviron/gomavlib/v3/pkg/message"
)

func init() { cmds["msg"] = cmdMsg }

// fieldShape describes the Go-level shape of field i of a def.
type fieldShape struct {
	isStr  bool
	n      int // elements (1 for scalar)
	gosize int
	strlen int
}

func shapes(d DefJ) []fieldShape {
	out := make([]fieldShape, len(d.Fields))
	gs := map[string]int{"uint8": 1, "int8": 1, "uint16": 2, "int16": 2, "uint32": 4, "int32": 4, "float32": 4,
		"uint64": 8, "int64": 8, "float64": 8}
	for i, f := range d.Fields {
		s := fieldShape{n: 1}
		if f.GoKind == "string" {
			s.isStr = true
			s.strlen = f.MavLen
			if s.strlen < 0 {
				s.strlen = 1
			}
		} else {
			s.gosize = gs[f.GoKind]
			if f.Arr > 0 {
				s.n = f.Arr
			}
		}
		out[i] = s
	}
	return out
}

func distinctBytes(base, n int) B {
	b := make(B, n)
	for i := range b {
		b[i] = byte(base + i)
		if b[i] == 0 {
			b[i] = 0x5A
		}
	}
	return b
}

type msgDriver struct {
	rec    *Rec
	protos []message.Message
	defs   []DefJ
	rws    []*message.ReadWriter
}

func safeInit(m message.Message) (rw *message.ReadWriter, ok bool, panicked bool) {
	defer func() {
		if r := recover(); r != nil {
			ok, panicked = false, true
		}
	}()
	rw = &message.ReadWriter{Message: m}
	err := rw.Initialize()
	return rw, err == nil, false
}

func safeWrite(rw *message.ReadWriter, m message.Message, v2 bool) (out B, panicked bool) {
	defer func() {
		if r := recover(); r != nil {
			panicked = true
		}
	}()
	raw := rw.Write(m, v2)
	out = B(append([]byte{}, raw.Payload...))
	// what the encoder returned belongs to the caller: it is overwritten and appended to at once (a ground station that
	// patches the target into a message it encoded once) - no later result may change because of that
	for i := range raw.Payload {
		raw.Payload[i] = 0xEE
	}
	_ = append(raw.Payload, 0xEE, 0xEE, 0xEE, 0xEE)
	return out, false
}

// safeRead decodes payload placed in a window of a larger backing array whose spare capacity holds
// 0xAA; reports whether the window or the tail changed.
func safeReadMsg(rw *message.ReadWriter, id uint32, payload []byte, v2 bool) (vals [][]B, ok, panicked, srcMod, tailMod bool) {
	const spare = 64
	backing := make([]byte, len(payload)+spare)
	copy(backing, payload)
	for i := len(payload); i < len(backing); i++ {
		backing[i] = 0xAA
	}
	window := backing[:len(payload)]
	defer func() {
		if r := recover(); r != nil {
			panicked = true
		}
		for i := range payload {
			if backing[i] != payload[i] {
				srcMod = true
			}
		}
		for i := len(payload); i < len(backing); i++ {
			if backing[i] != 0xAA {
				tailMod = true
			}
		}
	}()
	m, err := rw.Read(&message.MessageRaw{ID: id, Payload: window}, v2)
	if err != nil {
		return nil, false, false, false, false
	}
	vals = valsOf(m)
	// the caller's buffer is the caller's: it is reused for the next packet (overwritten here, after the comparison with the
	// original bytes in the deferred check is no longer possible - so that check is done now) and the message already
	// handed out must stay what it was
	for i := range payload {
		if backing[i] != payload[i] {
			srcMod = true
		}
	}
	for i := range backing {
		backing[i] = 0x58
	}
	if !reflect.DeepEqual(valsOf(m), vals) {
		resultAliasesInput = true
	}
	copy(backing, payload)
	for i := len(payload); i < len(backing); i++ {
		backing[i] = 0xAA
	}
	// the caller owns what it was given: it edits the message, then the same payload is decoded once more
	// (a repeated heartbeat) and must give the same values again
	scribble(reflect.ValueOf(m).Elem())
	m2, err2 := rw.Read(&message.MessageRaw{ID: id, Payload: append([]byte{}, payload...)}, v2)
	if err2 != nil || !reflect.DeepEqual(valsOf(m2), vals) {
		decodeAgainDiffers = true
	}
	return vals, true, false, false, false
}

// resultAliasesInput is set when a decoded message changed after the caller overwrote the buffer it had decoded from
var resultAliasesInput bool

func takeAliases() bool {
	d := resultAliasesInput
	resultAliasesInput = false
	return d
}

// decodeAgainDiffers is set when decoding the same payload a second time, after the first result was edited by the
// caller, did not give the first values again; read and cleared by the probe that records the decode
var decodeAgainDiffers bool

func takeAgainDiffers() bool {
	d := decodeAgainDiffers
	decodeAgainDiffers = false
	return d
}

func scribble(v reflect.Value) {
	switch v.Kind() {
	case reflect.Struct:
		for i := 0; i < v.NumField(); i++ {
			scribble(v.Field(i))
		}
	case reflect.Array:
		for i := 0; i < v.Len(); i++ {
			scribble(v.Index(i))
		}
	case reflect.String:
		v.SetString("zq")
	case reflect.Float32, reflect.Float64:
		v.SetFloat(-7.25)
	case reflect.Int8, reflect.Int16, reflect.Int32, reflect.Int64, reflect.Int:
		v.SetInt(int64(0x5A))
	case reflect.Uint8, reflect.Uint16, reflect.Uint32, reflect.Uint64, reflect.Uint:
		v.SetUint(0x5B)
	}
}

func (d *msgDriver) enc(di int, vals [][]B, v2 bool, tag string) {
	m := newMsg(d.protos[di], vals)
	out, pan := safeWrite(d.rws[di], m, v2)
	r := M{"e": "ENC", "d": di + 1, "vals": vals, "v2": v2, "out": out, "panic": pan, "tag": tag}
	if !pan {
		dv, ok, p2, sm, tm := safeReadMsg(d.rws[di], d.protos[di].GetID(), out, v2)
		if dv == nil {
			dv = [][]B{}
		}
		r["dec"], r["dec_ok"], r["dec_panic"], r["src_mod"], r["tail_mod"] = dv, ok, p2, sm, tm
	} else {
		r["dec"], r["dec_ok"], r["dec_panic"], r["src_mod"], r["tail_mod"] = [][]B{}, false, false, false, false
	}
	r["again_differs"] = takeAgainDiffers()
	r["aliases_input"] = takeAliases()
	d.rec.Put(r)
}

func (d *msgDriver) dec(di int, payload B, v2 bool, tag string) {
	dv, ok, pan, sm, tm := safeReadMsg(d.rws[di], d.protos[di].GetID(), payload, v2)
	if dv == nil {
		dv = [][]B{}
	}
	d.rec.Put(M{"e": "DEC", "d": di + 1, "v2": v2, "in": payload, "ok": ok, "vals": dv, "panic": pan,
		"src_mod": sm, "tail_mod": tm, "tag": tag, "again_differs": takeAgainDiffers(), "aliases_input": takeAliases()})
}

var collideDone int

// pairs of equal length with the same 32-bit hash under some common hash function (found by search, lib note in DESIGN.md)
var hashCollisions = [][2]string{
	{"SERVO1324_FF", "FLTMODE719_I"}, {"WPNAV250_D", "EK3486_MAX"}, {"INS1697_FUNCTION", "LOG1639_REVERSED"}, // FNV-1a/32
	{"RC66266_FF", "EK317754_P"}, {"RC28315_REVERSED", "ARMING67942_TRIM"}, // FNV-1a/32
	{"LOG35868_P", "MOT27275_I"}, {"BATT24925_ENABLE", "PSC9575_REVERSED"}, // FNV-1/32
	{"RC30335_FUNCTION", "FLTMODE30678_MAX"},                               // CRC-32 (IEEE)
	{"INS60877_P", "MOT17392_P"}, {"FLTMODE96827_MIN", "RC57743_REVERSED"}, // djb2
	{"COMPASS99549_MIN", "BATT39381_ENABLE"},                               // h*31+c
	{"PSC16050_I", "LOG67125_D"}, {"COMPASS15040_MIN", "FLTMODE36372_MIN"}, // Adler-32
}

func boundaryElem(r *rand.Rand, size int) B {
	switch r.Intn(8) {
	case 0:
		return make(B, size)
	case 1:
		b := make(B, size)
		for i := range b {
			b[i] = 0xFF
		}
		return b
	case 2: // min signed
		b := make(B, size)
		b[size-1] = 0x80
		return b
	case 3: // max signed
		b := make(B, size)
		for i := range b {
			b[i] = 0xFF
		}
		b[size-1] = 0x7F
		return b
	case 4: // NaN with payload / -0 patterns for floats
		b := make(B, size)
		if size == 4 {
			copy(b, []byte{0x01, 0x00, 0xA0, 0x7F})
		} else if size == 8 {
			copy(b, []byte{0x01, 0, 0, 0, 0, 0, 0xF4, 0x7F})
		} else {
			b[0] = 1
		}
		return b
	case 5: // negative zero
		b := make(B, size)
		b[size-1] = 0x80
		return b
	case 6:
		b := make(B, size)
		b[0] = 1
		return b
	}
	return rbytes(r, size)
}

func boundaryString(r *rand.Rand, n int) B {
	switch r.Intn(7) {
	case 0:
		return B{}
	case 1:
		return B(bytesOf('A', max(0, n-1)))
	case 2:
		return B(bytesOf('B', n))
	case 3:
		return B(bytesOf('C', n+1+r.Intn(3)))
	case 4: // embedded NUL
		b := bytesOf('D', n)
		if n > 0 {
			b[r.Intn(n)] = 0
		}
		return B(b)
	case 5:
		b := rbytes(r, r.Intn(n+3))
		return b
	}
	return B(bytesOf('z', r.Intn(n+1)))
}

func bytesOf(c byte, n int) []byte {
	b := make([]byte, n)
	for i := range b {
		b[i] = c
	}
	return b
}

func randVals(r *rand.Rand, sh []fieldShape, zeroTail bool) [][]B {
	vals := make([][]B, len(sh))
	for i, s := range sh {
		if s.isStr {
			vals[i] = []B{boundaryString(r, s.strlen)}
			continue
		}
		vals[i] = make([]B, s.n)
		for k := 0; k < s.n; k++ {
			vals[i][k] = boundaryElem(r, s.gosize)
		}
	}
	if zeroTail { // make trailing fields zero so that v2 truncation has work to do
		cut := r.Intn(len(sh) + 1)
		for i := cut; i < len(sh); i++ {
			for k := range vals[i] {
				if sh[i].isStr {
					vals[i][k] = B{}
				} else {
					vals[i][k] = make(B, sh[i].gosize)
				}
			}
		}
	}
	return vals
}

func cmdMsg(o opts) {
	rec := newRec(o.out)
	r := rand.New(rand.NewSource(o.seed))
	thorough := o.tier == "thorough"
	mode := o.aux // "c03" or "c04"

	protos := allProtos()
	only64 := os.Getenv("VERIF_ONLY64") != "" // the run on a 32-bit build: only definitions with an 8-byte field are probed
	d := &msgDriver{rec: rec, protos: protos}
	for _, p := range protos {
		d.defs = append(d.defs, defOf(p))
	}
	// defs table for the spec
	df, err := os.Create(o.out + ".defs.json")
	if err != nil {
		fatal("%v", err)
	}
	json.NewEncoder(df).Encode(d.defs)
	df.Close()

	for di, p := range protos {
		rw, ok, pan := safeInit(p)
		d.rws = append(d.rws, rw)
		sh := shapes(d.defs[di])
		rcd := M{"e": "DEF", "d": di + 1, "init_ok": ok, "panic": pan, "crc": -1, "size_v1": -1, "size_v2": -1}
		if ok {
			rcd["crc"] = int(rw.CRCExtra())
			// sizes are observable as the length of an encoding without zero bytes
			full := make([][]B, len(sh))
			for i, s := range sh {
				if s.isStr {
					full[i] = []B{B(bytesOf('A', s.strlen))}
				} else {
					full[i] = make([]B, s.n)
					for k := range full[i] {
						full[i][k] = B(bytesOf(0xFF, s.gosize))
					}
				}
			}
			o1, p1 := safeWrite(rw, newMsg(p, full), false)
			o2, p2 := safeWrite(rw, newMsg(p, full), true)
			if !p1 {
				rcd["size_v1"] = len(o1)
			}
			if !p2 {
				rcd["size_v2"] = len(o2)
			}
		}
		rec.Put(rcd)
	}

	for di, p := range protos {
		if d.rws[di] == nil {
			continue
		}
		sh := shapes(d.defs[di])
		if only64 {
			wide := false
			for _, s := range sh {
				wide = wide || (!s.isStr && s.gosize == 8)
			}
			if !wide {
				continue
			}
		}
		zero := zeroVals(p)
		if mode == "c03" {
			// every field filled at once with distinct non-zero bytes (strings at full length): neighbours must not
			// bleed into each other when the payload is read back
			{
				vals := cloneVals(zero)
				for i, s := range sh {
					if s.isStr {
						vals[i][0] = distinctBytes(0x41+i, s.strlen)
					} else {
						for k := range vals[i] {
							vals[i][k] = distinctBytes(0x11*(1+(i+k)%13)+k, s.gosize)
						}
					}
				}
				d.enc(di, vals, true, "full")
				d.enc(di, vals, false, "full")
				// same with small numbers (zero high bytes) behind full-length strings: a string must end at its
				// declared length even when the next zero byte lies further on
				v2 := cloneVals(vals)
				for i, s := range sh {
					if !s.isStr {
						for k := range v2[i] {
							b := make(B, s.gosize)
							b[0] = byte(1 + (i*7+k)%200)
							v2[i][k] = b
						}
					}
				}
				d.enc(di, v2, true, "full_small")
				d.enc(di, v2, false, "full_small")
			}
			// floats travel bit for bit: signalling NaN patterns (a float32 -> float64 -> float32 detour quiets them)
			for i, s := range sh {
				if s.isStr || (d.defs[di].Fields[i].GoKind != "float32" && d.defs[di].Fields[i].GoKind != "float64") {
					continue
				}
				vals := cloneVals(zero)
				for k := range vals[i] {
					if s.gosize == 4 {
						vals[i][k] = B{byte(1 + k), 0x00, 0xA0, 0x7F}
						if k%2 == 1 {
							vals[i][k] = B{0xC0, 0xB4, 0xB3, 0xFF}
						}
					} else {
						vals[i][k] = B{byte(1 + k), 0, 0, 0, 0, 0, 0xF4, 0x7F}
					}
				}
				d.enc(di, vals, true, "snan")
				d.enc(di, vals, false, "snan")
				// negative zero: only the sign bit set (equal to 0 in a float comparison, not on the wire); alone in the
				// last element it is also the payload's last non-zero byte
				nz := cloneVals(zero)
				for k := range nz[i] {
					b := make(B, s.gosize)
					if k%2 == 0 || k == len(nz[i])-1 {
						b[s.gosize-1] = 0x80
					}
					nz[i][k] = b
				}
				d.enc(di, nz, true, "negzero")
				d.enc(di, nz, false, "negzero")
			}
			// one field (and array element) at a time, distinct non-zero bytes; others zero
			for i, s := range sh {
				var elems []int
				if s.n <= 3 || thorough {
					for k := 0; k < s.n; k++ {
						elems = append(elems, k)
					}
				} else {
					elems = []int{0, s.n / 2, s.n - 1}
				}
				for _, k := range elems {
					reps := 1
					if thorough {
						reps = 3
					}
					for rep := 0; rep < reps; rep++ {
						vals := cloneVals(zero)
						if s.isStr {
							ln := []int{s.strlen, s.strlen - 1, s.strlen + 1}[rep]
							if ln < 0 {
								ln = 0
							}
							vals[i][0] = distinctBytes(0x41+i, ln)
						} else {
							switch rep {
							case 0:
								vals[i][k] = distinctBytes(0x11*(1+(i+k)%13), s.gosize)
							case 1:
								vals[i][k] = B(bytesOf(0xFF, s.gosize))
							default:
								vals[i][k] = boundaryElem(r, s.gosize)
							}
						}
						v2 := true
						if !thorough {
							v2 = (i+k+di)%4 != 0
							d.enc(di, vals, v2, "probe")
						} else {
							d.enc(di, vals, true, "probe")
							d.enc(di, vals, false, "probe")
						}
					}
				}
			}
		} else {
			// strings that a weak 32-bit hash cannot tell apart (equal length; FNV-1a, FNV-1, CRC-32, djb2, x31, Adler-32):
			// decoded one after the other through the same codec - a value cache keyed by such a hash gives the first one twice
			for i, s := range sh {
				if !s.isStr || s.strlen < 10 || (collideDone >= 8 && !thorough) {
					continue
				}
				collideDone++
				for _, pr := range hashCollisions {
					if len(pr[0]) > s.strlen {
						continue
					}
					for _, str := range []string{pr[0], pr[1], pr[0]} {
						vals := cloneVals(zero)
						vals[i] = []B{B(str)}
						d.enc(di, vals, true, "collide")
						d.enc(di, vals, false, "collide")
					}
				}
			}
			// text in UTF-8: a string is cut at its declared length in BYTES, wherever that falls - characters of 2, 3 and 4
			// bytes that end exactly at the field's end, straddle it, or begin right after it
			for i, s := range sh {
				if !s.isStr || s.strlen < 4 {
					continue
				}
				for _, ch := range []string{"\u00e9", "\u20ac", "\U0001F600"} {
					for _, lead := range []int{s.strlen - len(ch), s.strlen - len(ch) + 1, s.strlen - 1, s.strlen} {
						if lead < 0 || (!thorough && (lead+len(ch)+i+di)%2 == 0) {
							continue
						}
						vals := cloneVals(zero)
						vals[i] = []B{B(strings.Repeat("a", lead) + ch + "tail")}
						d.enc(di, vals, (lead+di)%2 == 0, "utf8")
						vals2 := cloneVals(zero)
						vals2[i] = []B{B(strings.Repeat(ch, s.strlen/len(ch)+2))}
						d.enc(di, vals2, (lead+di)%2 == 1, "utf8")
					}
				}
			}
			// c04: full assignments from boundary sets, both versions
			na := 3
			if thorough {
				na = 30
			}
			for a := 0; a < na; a++ {
				vals := randVals(r, sh, a%2 == 0)
				d.enc(di, vals, true, "assign")
				d.enc(di, vals, false, "assign")
			}
			// arbitrary payloads: lengths around the sizes, zero / 0xFF / random contents
			rcd := d.rws[di]
			_ = rcd
			base, ext := sizesOf(d.defs[di])
			lens := uniqInts([]int{0, 1, 2, base - 1, base, base + 1, ext - 1, ext, ext + 1, 255, 300})
			for _, ln := range lens {
				if ln < 0 {
					continue
				}
				for c := 0; c < 3; c++ {
					if !thorough && (ln+c+di)%2 == 0 && ln != base && ln != ext {
						continue
					}
					pl := make(B, ln)
					switch c {
					case 1:
						for i := range pl {
							pl[i] = 0xFF
						}
					case 2:
						pl = rbytes(r, ln)
					}
					d.dec(di, pl, true, "lens")
					d.dec(di, pl, false, "lens")
				}
			}
			// valid encodings with up to 8 trailing zero bytes removed / 1..8 zeros appended
			vals := randVals(r, sh, true)
			full, pan := safeWrite(d.rws[di], newMsg(p, vals), false) // untruncated base encoding
			if !pan {
				fullExt := append(B{}, full...)
				for len(fullExt) < ext {
					fullExt = append(fullExt, 0)
				}
				steps := []int{1, 2, 8}
				if thorough {
					steps = []int{1, 2, 3, 4, 5, 6, 7, 8}
				}
				for _, k := range steps {
					d.dec(di, append(append(B{}, fullExt...), make(B, k)...), true, "append")
					if k <= len(fullExt) {
						d.dec(di, fullExt[:len(fullExt)-k], true, "remove")
					}
				}
			}
		}
	}
	rec.Close()
}

func cloneVals(v [][]B) [][]B {
	out := make([][]B, len(v))
	for i := range v {
		out[i] = make([]B, len(v[i]))
		for k := range v[i] {
			out[i][k] = append(B{}, v[i][k]...)
		}
	}
	return out
}

func sizesOf(d DefJ) (base, ext int) {
	ws := map[string]int{"uint8": 1, "int8": 1, "uint16": 2, "int16": 2, "uint32": 4, "int32": 4, "float32": 4,
		"uint64": 8, "int64": 8, "float64": 8, "string": 1}
	for _, f := range d.Fields {
		t := f.GoKind
		if f.MavEnum != "" {
			t = f.MavEnum
		}
		n := f.Arr
		if f.GoKind == "string" {
			n = f.MavLen
			if n < 0 {
				n = 1
			}
		}
		if n == 0 {
			n = 1
		}
		sz := ws[t] * n
		ext += sz
		if !f.Ext {
			base += sz
		}
	}
	return
}

func uniqInts(in []int) []int {
	seen := map[int]bool{}
	var out []int
	for _, x := range in {
		if !seen[x] {
			seen[x] = true
			out = append(out, x)
		}
	}
	return out
}

func max(a, b int) int {
	if a > b {
		return a
	}
	return b
}
