package main

import (
	"bufio"
	"bytes"
	"encoding/json"
	"errors"
	"io"
	"math/rand"
	"os"
	"reflect"

	"github.com/bluenviron/gomavlib/v3/pkg/dialect"
	"github.com/bluenviron/gomavlib/v3/pkg/frame"
	"github.com/bluenviron/gomavlib/v3/pkg/message"
)

func init() { cmds["c01"] = cmdC01 }

// recWriter records every Write call.
type recWriter struct {
	calls int
	buf   bytes.Buffer
}

func (w *recWriter) Write(p []byte) (int, error) {
	w.calls++
	w.buf.Write(p)
	return len(p), nil
}

// writeFrame drives the real frame.Writer.Write.
func writeFrame(j FrameJ, drw *dialect.ReadWriter) (out B, calls int, errS string, panicked bool) {
	rw := &recWriter{}
	defer func() {
		if r := recover(); r != nil {
			panicked = true
			out = B(append([]byte{}, rw.buf.Bytes()...))
			calls = rw.calls
		}
	}()
	w := &frame.Writer{ByteWriter: rw, DialectRW: drw}
	if err := w.Initialize(); err != nil {
		fatal("writer init: %v", err)
	}
	err := w.Write(j.toGo())
	if err != nil {
		errS = err.Error()
	}
	return B(append([]byte{}, rw.buf.Bytes()...)), rw.calls, errS, false
}

// readRes is the projection of one Reader.Read call.
type readRes struct {
	K   string  `json:"k"` // frame | perr | terr | panic
	F   *FrameJ `json:"f,omitempty"`
	Err string  `json:"err,omitempty"`
	Dec *MsgJ   `json:"dec,omitempty"` // decoded message when the dialect knew the id
}

func classify(fr frame.Frame, err error) readRes {
	if err != nil {
		var re frame.ReadError
		if errors.As(err, &re) {
			return readRes{K: "perr", Err: err.Error()}
		}
		return readRes{K: "terr", Err: err.Error()}
	}
	j, ok := fromGo(fr)
	if ok {
		return readRes{K: "frame", F: &j}
	}
	// decoded message
	mj := msgToJ(fr.GetMessage())
	return readRes{K: "frame", F: &j, Dec: mj}
}

func safeRead(r *frame.Reader) (res readRes) {
	defer func() {
		if p := recover(); p != nil {
			res = readRes{K: "panic"}
		}
	}()
	fr, err := r.Read()
	return classify(fr, err)
}

// readWhole reads one frame from in and reports what is left and what the next call says.
func readWhole(in []byte, drw *dialect.ReadWriter, key *frame.V2Key) (res readRes, next string) {
	br := bytes.NewReader(in)
	r := &frame.Reader{ByteReader: br, DialectRW: drw, InKey: key}
	if err := r.Initialize(); err != nil {
		fatal("reader init: %v", err)
	}
	res = safeRead(r)
	n2 := safeRead(r)
	next = n2.K
	if n2.K == "terr" && n2.Err == io.EOF.Error() {
		next = "eof"
	}
	return
}

func mkFrame(r *rand.Rand, v int, signed bool, plen int) FrameJ {
	j := FrameJ{V: v, Seq: r.Intn(256), Sys: r.Intn(256), Comp: r.Intn(256), Ck: r.Intn(65536),
		Payload: rbytes(r, plen), Ts: z6, Sig: B{}}
	if v == 1 {
		j.ID = r.Intn(256)
	} else {
		j.ID = r.Intn(1 << 24)
		j.CFlag = r.Intn(256)
		if signed {
			j.IFlag = 1
			j.Link = r.Intn(256)
			j.Ts = rbytes(r, 6)
			j.Sig = rbytes(r, 6)
		}
	}
	return j
}

// cmdC01Streams: many frames written one after the other by one real frame.Writer and read back from the resulting
// stream by one real frame.Reader under several transport chunkings; every returned frame is inspected only after the
// whole stream has been read (STREAM records, judged by the reader monitor).
func cmdC01Streams(o opts) {
	rec := newRec(o.out)
	r := rand.New(rand.NewSource(o.seed))
	em := &streamEmitter{rec: rec}
	n := 12
	if o.tier == "thorough" {
		n = 150
	}
	for s := 0; s < n; s++ {
		rw := &recWriter{}
		w := &frame.Writer{ByteWriter: rw}
		if err := w.Initialize(); err != nil {
			fatal("writer init: %v", err)
		}
		cnt := 3 + r.Intn(10)
		mode := s % 3 // all signed | mixed | long payloads
		for i := 0; i < cnt; i++ {
			v, signed := 2, true
			if mode == 1 {
				v, signed = 1+r.Intn(2), r.Intn(2) == 0
			}
			plen := r.Intn(40)
			if mode == 2 || r.Intn(5) == 0 {
				plen = 200 + r.Intn(56)
			}
			j := mkFrame(r, v, signed && v == 2, plen)
			func() {
				defer func() { recover() }()
				w.Write(j.toGo()) //nolint:errcheck
			}()
		}
		data := append([]byte{}, rw.buf.Bytes()...)
		g := em.group()
		for _, sc := range [][]int{nil, {1}, {7}, {64, 3}, {1 + r.Intn(300)}} {
			em.put(g, data, -1, "eof", sc, false, streamCfg{}, true, "written_stream")
		}
	}
	// with a dialect: decoded messages written by one writer, the same value two to four times in a row between others (a
	// vehicle repeats itself), both versions, read back by one reader with the dialect. Every frame comes back with the
	// message that was written - also when the caller overwrites each message it is handed before reading on (the second
	// run of streamEmitter.put)
	all := findDialect("allplus")
	drw := mustRW(all)
	dcfg := streamCfg{drw: drw, dl: dialectIndices(all, defIndex(allProtos()))}
	var small []message.Message
	for _, m := range all.Messages {
		if b, _ := sizesOf(defOf(m)); b <= 40 {
			small = append(small, m)
		}
	}
	nd := 6
	if o.tier == "thorough" {
		nd = 60
	}
	for s := 0; s < nd; s++ {
		rw := &recWriter{}
		ver := frame.WriterOutVersion(1 + s%2)
		w := &frame.Writer{ByteWriter: rw, DialectRW: drw, OutVersion: ver, OutSystemID: 7}
		if err := w.Initialize(); err != nil {
			fatal("writer init: %v", err)
		}
		for i := 0; i < 3+r.Intn(5); i++ {
			m := small[r.Intn(len(small))]
			if ver == frame.V1 && m.GetID() > 255 {
				continue
			}
			val := newMsg(m, randVals(r, shapes(defOf(m)), r.Intn(2) == 0))
			for rep := 0; rep < 1+r.Intn(4); rep++ {
				func() {
					defer func() { recover() }()
					w.WriteMessage(val) //nolint:errcheck
				}()
			}
		}
		data := append([]byte{}, rw.buf.Bytes()...)
		g := em.group()
		for _, sc := range [][]int{nil, {1 + r.Intn(40)}} {
			em.put(g, data, -1, "eof", sc, false, dcfg, true, "written_stream_dialect")
		}
	}
	// long histories through ONE reader (more payload than any internal block or pool of the reader holds), every frame
	// kept until the end: 560 frames of 240..255 bytes (about 140 KiB of payload) and 9000 frames of 0..12 bytes
	nlong := 1
	if o.tier == "thorough" {
		nlong = 2
	}
	for s := 0; s < nlong; s++ {
		for _, shape := range []string{"large", "small"} {
			rw := &recWriter{}
			w := &frame.Writer{ByteWriter: rw}
			if err := w.Initialize(); err != nil {
				fatal("writer init: %v", err)
			}
			cnt, lo, span := 560, 240, 16
			if shape == "small" {
				cnt, lo, span = 9000, 0, 13
			}
			for i := 0; i < cnt; i++ {
				v := 1 + (i+s)%2
				j := mkFrame(r, v, v == 2 && i%3 == 0, lo+r.Intn(span))
				func() {
					defer func() { recover() }()
					w.Write(j.toGo()) //nolint:errcheck
				}()
			}
			data := append([]byte{}, rw.buf.Bytes()...)
			em.put(em.group(), data, -1, "eof", []int{1 + r.Intn(2000)}, false, streamCfg{bufSize: 512}, true, "long_history_"+shape)
		}
	}
	rec.Close()
}

// rewriteRecords: frames that carry DECODED messages are written through one writer, one after the other; the same frame
// objects are then written through a second writer, and through the first one again. What the caller's frames say must not
// depend on what any writer did in between: the three outputs are the same bytes (REWRITE records).
func rewriteRecords(rec *Rec, r *rand.Rand, n int) {
	all := findDialect("allplus")
	drw := mustRW(all)
	for k := 0; k < n; k++ {
		var frames []frame.Frame
		cnt := 2 + r.Intn(6)
		for i := 0; i < cnt; i++ {
			m := all.Messages[r.Intn(len(all.Messages))]
			msg := newMsg(m, randVals(r, shapes(defOf(m)), true))
			v := 1 + r.Intn(2)
			if m.GetID() > 255 {
				v = 2
			}
			j := mkFrame(r, v, v == 2 && r.Intn(3) == 0, 0)
			fr := j.toGo()
			switch f := fr.(type) {
			case *frame.V1Frame:
				f.Message = msg
			case *frame.V2Frame:
				f.Message = msg
			}
			frames = append(frames, fr)
		}
		outs := make([]B, 3)
		pan := false
		ws := []*frame.Writer{{DialectRW: drw}, {DialectRW: drw}}
		sinks := []*recWriter{{}, {}}
		for i, w := range ws {
			w.ByteWriter = sinks[i]
			if err := w.Initialize(); err != nil {
				fatal("writer init: %v", err)
			}
		}
		for pass, wi := range []int{0, 1, 0} {
			before := sinks[wi].buf.Len()
			for _, fr := range frames {
				func() {
					defer func() {
						if x := recover(); x != nil {
							pan = true
						}
					}()
					ws[wi].Write(fr) //nolint:errcheck
				}()
			}
			outs[pass] = B(append([]byte{}, sinks[wi].buf.Bytes()[before:]...))
		}
		rec.Put(M{"e": "REWRITE", "frames": cnt, "out1": outs[0], "out2": outs[1], "out3": outs[2], "panic": pan})
	}
}

func init() { cmds["c01s"] = cmdC01Streams }

func cmdC01(o opts) {
	rec := newRec(o.out)
	r := rand.New(rand.NewSource(o.seed))
	thorough := o.tier == "thorough"
	if thorough {
		rewriteRecords(rec, rand.New(rand.NewSource(o.seed+99)), 300)
	} else {
		rewriteRecords(rec, rand.New(rand.NewSource(o.seed+99)), 40)
	}

	// a dialect that lacks every id we use (ids >= 2 are absent): pass-through
	missRW := &dialect.ReadWriter{Dialect: &dialect.Dialect{Version: 3}}
	if err := missRW.Initialize(); err != nil {
		fatal("%v", err)
	}

	emit := func(j FrameJ, dl string) {
		var drw *dialect.ReadWriter
		if dl == "miss" {
			drw = missRW
		}
		out, calls, errS, pan := writeFrame(j, drw)
		rec.Put(M{"e": "FW", "f": j, "err": errS != "", "out": out, "nw": calls, "panic": pan, "dl": dl})
		if len(out) > 0 {
			res, next := readWhole(out, drw, nil)
			rec.Put(M{"e": "FR", "in": out, "res": res, "next": next, "dl": dl})
		}
	}

	variants := []struct {
		v      int
		signed bool
	}{{1, false}, {2, false}, {2, true}}
	dls := []string{"none", "miss"}

	stride := 1
	if !thorough {
		stride = 5
	}
	k := 0
	pick := func() (int, bool, string) {
		k++
		vv := variants[k%3]
		return vv.v, vv.signed, dls[(k/3)%2]
	}

	// every value of each header byte, one at a time
	off := int(o.seed) % stride
	if off < 0 {
		off = 0
	}
	for val := 0; val < 256; val++ {
		if !thorough && val%stride != off && val != 0 && val != 255 && val != 253 && val != 254 {
			continue
		}
		for _, field := range []string{"seq", "sys", "comp", "cflag", "link", "id8"} {
			vs := variants
			if !thorough {
				v, s, _ := pick()
				vs = vs[:0:0]
				vs = append(vs, struct {
					v      int
					signed bool
				}{v, s})
			}
			for _, vv := range vs {
				if field == "cflag" && vv.v == 1 {
					continue
				}
				if field == "link" && !vv.signed {
					continue
				}
				j := mkFrame(r, vv.v, vv.signed, r.Intn(4))
				switch field {
				case "seq":
					j.Seq = val
				case "sys":
					j.Sys = val
				case "comp":
					j.Comp = val
				case "cflag":
					j.CFlag = val
				case "link":
					j.Link = val
				case "id8":
					j.ID = val
				}
				_, _, dl := pick()
				emit(j, dl)
			}
		}
	}

	// message ids: single bits, boundaries, random; v1 with ids > 255 must be refused
	ids := []int{0, 1, 255, 256, 257, 0xFFFF, 0x10000, 0x10001, 0xFFFFFE, 0xFFFFFF}
	for b := 0; b < 24; b++ {
		ids = append(ids, 1<<b)
	}
	nr := 20
	if thorough {
		nr = 400
	}
	for i := 0; i < nr; i++ {
		ids = append(ids, r.Intn(1<<24))
	}
	for _, id := range ids {
		for _, vv := range variants {
			j := mkFrame(r, vv.v, vv.signed, r.Intn(6))
			j.ID = id
			_, _, dl := pick()
			emit(j, dl)
		}
	}

	// payload lengths 0..255 with zero / 0xFF / random / marker-laden contents
	for n := 0; n <= 255; n++ {
		if !thorough && n%stride != off && n > 3 && n < 252 {
			continue
		}
		for c := 0; c < 4; c++ {
			v, s, dl := pick()
			j := mkFrame(r, v, s, n)
			for i := range j.Payload {
				switch c {
				case 0:
					j.Payload[i] = 0
				case 1:
					j.Payload[i] = 0xFF
				case 3:
					j.Payload[i] = []byte{0xFE, 0xFD, 0x00, 0x01}[r.Intn(4)]
				}
			}
			emit(j, dl)
		}
	}

	// checksum bytes, timestamps (every single bit of 48, boundaries), signatures
	for b := 0; b < 16; b++ {
		v, s, dl := pick()
		j := mkFrame(r, v, s, 2)
		j.Ck = 1 << b
		emit(j, dl)
	}
	tss := []uint64{0, 1, 0xFF, 0x100, 1<<24 - 1, 1 << 24, 1<<32 - 1, 1 << 32, 1<<48 - 2, 1<<48 - 1}
	for b := 0; b < 48; b++ {
		tss = append(tss, 1<<uint(b))
	}
	for _, ts := range tss {
		j := mkFrame(r, 2, true, r.Intn(4))
		j.Ts = le(ts, 6)
		_, _, dl := pick()
		emit(j, dl)
	}
	for b := 0; b < 48; b++ {
		j := mkFrame(r, 2, true, 1)
		j.Sig = le(1<<uint(b), 6)
		_, _, dl := pick()
		emit(j, dl)
	}

	// random combinations
	nc := 300
	if thorough {
		nc = 20000
	}
	for i := 0; i < nc; i++ {
		v, s, dl := pick()
		n := r.Intn(256)
		if r.Intn(3) == 0 {
			n = r.Intn(8)
		}
		emit(mkFrame(r, v, s, n), dl)
	}

	// with a dialect that has the message: the frame carries a decoded message, the writer encodes it
	{
		protos := allProtos()
		ix := defIndex(protos)
		allD := findDialect("allplus")
		drw := mustRW(allD)
		nm := 40
		if thorough {
			nm = len(allD.Messages)
		}
		for i := 0; i < nm; i++ {
			m := allD.Messages[(i*7+int(o.seed))%len(allD.Messages)]
			sh := shapes(defOf(m))
			vals := randVals(r, sh, i%2 == 0)
			for _, vv := range variants {
				if vv.v == 1 && m.GetID() > 255 {
					continue
				}
				j := mkFrame(r, vv.v, vv.signed, 0)
				j.ID = int(m.GetID())
				j.Payload = B{}
				fr := j.toGo()
				msg := newMsg(m, vals)
				switch f := fr.(type) {
				case *frame.V1Frame:
					f.Message = msg
				case *frame.V2Frame:
					f.Message = msg
				}
				sink := &recWriter{}
				w := &frame.Writer{ByteWriter: sink, DialectRW: drw}
				w.Initialize() //nolint:errcheck
				errS, pan := "", false
				func() {
					defer func() {
						if rr := recover(); rr != nil {
							pan = true
						}
					}()
					if err := w.Write(fr); err != nil {
						errS = err.Error()
					}
				}()
				rec.Put(M{"e": "FWM", "f": j, "d": ix[reflect.TypeOf(m)], "vals": vals, "err": errS != "", "panic": pan,
					"out": B(append([]byte{}, sink.buf.Bytes()...)), "nw": sink.calls})
			}
		}
	}

	// spec -> code vectors: bytes computed by TLC from MavFrame!Marshal
	if o.vectors != "" {
		f, err := os.Open(o.vectors)
		if err != nil {
			fatal("%v", err)
		}
		sc := bufio.NewScanner(f)
		sc.Buffer(make([]byte, 1<<20), 1<<24)
		for sc.Scan() {
			var vec struct {
				F     FrameJ `json:"f"`
				Bytes B      `json:"bytes"`
			}
			if err := json.Unmarshal(sc.Bytes(), &vec); err != nil {
				fatal("vector: %v", err)
			}
			res, next := readWhole(vec.Bytes, nil, nil)
			out, calls, errS, pan := writeFrame(vec.F, nil)
			rec.Put(M{"e": "VEC", "f": vec.F, "bytes": vec.Bytes, "res": res, "next": next,
				"out": out, "nw": calls, "err": errS != "", "panic": pan})
		}
		f.Close()
	}
	rec.Close()
}
