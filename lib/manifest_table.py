"""Per-property manifest texts."""
HOOK_COMMITS = []
NOT_APPLICABLE = {}

TABLE = {
    "C01": {
        "engine": "wire",
        "design_ref": "DESIGN.md section 4, C01",
        "technique": "TLA+ frame-format specification model-checked with TLC (lossless, prefix-free on a boundary product); TLC-computed vectors replayed into the real reader/writer and real call records validated by the TLA+ monitor",
        "text": "TLC proves on the boundary product that the specified format is a lossless prefix-free code and emits marshalled vectors; every real frame.Writer.Write / frame.Reader.Read call on generated frames (each header byte value, id bits, payload lengths 0..255, every timestamp/signature bit) is recorded and judged by the TLA+ Marshal/Parse operators, so a layout change made consistently in writer and reader is still caught.",
        "note": "Trusted: MavFrame.tla as transcription of the MAVLink serialization document; TLC; the harness's projection of Go frames to JSON (cross-checked by spec-made vectors). Sampling, not exhaustive, over the 2^24 ids / payload contents.",
    },
}
