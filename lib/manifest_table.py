"""Per-property manifest texts."""
HOOK_COMMITS = []
NOT_APPLICABLE = {}

TABLE = {
    "C01": {
        "engine": "wire",
        "design_ref": "DESIGN.md section 4, C01",
        "technique": "TLA+ frame-format specification model-checked with TLC (lossless, prefix-free on a boundary product); TLC-computed vectors replayed into the real reader/writer and real call records validated by the TLA+ monitor",
        "text": "TLC proves on the boundary product that the specified format is a lossless prefix-free code and emits marshalled vectors; every real frame.Writer.Write / frame.Reader.Read call on generated frames (each header byte value, id bits, payload lengths 0..255, every timestamp/signature bit) is recorded and judged by the TLA+ Marshal/Parse operators, so a layout change made consistently in writer and reader is still caught.",
        "note": "Trusted: MavFrame.tla as transcription of the MAVLink serialization document; TLC; the harness's projection of Go frames to JSON (cross-checked by spec-made vectors). Sampling, not exhaustive, over the 2^24 ids / payload contents.",
    },
    "C03": {
        "engine": "wire",
        "design_ref": "DESIGN.md section 4, C03",
        "technique": "TLA+ specification of MAVLink field reordering / sizes / CRC_EXTRA / encoding model-checked on all small definitions; every reflected message definition and per-field probe encoding of the real codec validated by TLC against the spec operators",
        "text": "TLC checks on all definitions with up to 2 (quick) / 3 (thorough) fields that the specified wire order is a stable permutation with extensions last, sizes add up and decode(encode)=canon. The real library is then observed on all 408 shipped message structs plus 9 user structs: CRC_EXTRA and sizes per definition and one-field-at-a-time probe encodings, each record judged by the TLA+ operators (spec-derived layout, not the implementation's).",
        "note": "Trusted: MavMessage.tla as transcription of the MAVLink serialization rules; the Go struct (via reflection) taken as the message definition because the dialect XML is not shipped; TLC.",
    },
    "C04": {
        "engine": "wire",
        "design_ref": "DESIGN.md section 4, C04",
        "technique": "TLA+ Encode/Decode/Canon specification with zero-insensitivity theorems model-checked exhaustively on small definitions and payloads; real Write/Read records (boundary values, arbitrary payload lengths, aliasing windows) validated by TLC",
        "text": "TLC proves for all small definitions and all payloads up to length 5/6 over {0,1,2} that the specified v2 decoder is insensitive to trailing zeros removed/appended and to bytes past the extended size and that v1 accepts exactly the base length. Every real Write/Read call on boundary assignments and arbitrary payloads of every message type is compared with the spec result; panics and writes to the caller's buffer or its spare capacity are observed with a 0xAA-guarded window.",
        "note": "Trusted: MavMessage.tla; the harness's reflection-based projection of message values to little-endian limbs; sampling (not exhaustive) over field values and payload contents.",
    },
    "C02": {
        "engine": "stream",
        "design_ref": "DESIGN.md section 4, C02",
        "technique": "bit-serial CRC-16/MCRF4XX in TLA+ (table = serial on all 2^24 pairs by TLC); real x25 sums validated by TLC; TLC-computed valid frames damaged and replayed through the real dialect reader, results validated by the PReader monitor",
        "text": "TLC shows the table-driven step equals the bit-serial catalogue definition on all 2^24 (register, byte) pairs. The real x25 package is observed on all 3-byte strings behind 8 (quick) / all 256 (thorough = all 2^24 pairs) first bytes and on split strings. Valid frames whose CRC_EXTRA and checksum are computed by the specification are fed to a real dialect reader untouched and with every single-bit flip, substitutions and multi-byte damage; the monitor recomputes the CRC, so a frame is delivered iff its checksum is the spec value (collisions are judged correctly).",
        "note": "Trusted: X25.tla parameters (check value asserted), MavMessage!CrcExtra (C03), TLC. Gate conformance samples ~40 message types in quick, all in thorough.",
    },
    "C05": {
        "engine": "stream",
        "design_ref": "DESIGN.md section 4, C05",
        "technique": "TLA+ prefix parser + PReader stream monitor (cursor, progress, frame-equals-consumed-bytes, completeness, chunking independence); runs of the real reader over exhaustive small-alphabet streams and structured streams under chunk schedules and injected transport errors validated by TLC",
        "text": "Every run of the real frame.Reader (until the transport error) over all strings over {FE,FD,00,01,02} up to length 5/7 and over structured streams (valid, truncated, corrupted frames, junk) under chunkings cut at every region boundary and with an error at every offset is recorded with the byte cursor of every call and validated by the monitor: result kinds, progress, at most n+1 calls, each frame equals exactly the bytes consumed, valid frame at the cursor is delivered, clean streams yield every frame, results equal across chunkings.",
        "note": "Trusted: MavFrame!ParseAt; cursor computed as bytes drawn minus bufio.Buffered(). The monitor does not prescribe how far the reader skips after a bad frame.",
    },
    "C06": {
        "engine": "stream",
        "design_ref": "DESIGN.md section 4, C06",
        "technique": "SHA-256 and the MAVLink signature layout in pure TLA+; TLC-signed frames tampered and replayed through the real keyed reader; frames emitted by real keyed writers verified by TLC",
        "text": "Signed frames are computed entirely by the specification (SHA-256 in TLA+, asserted on FIPS vectors) for 3 keys x 5 payload lengths and read by a real reader with InKey: untouched frames must be delivered; every single-bit alteration, cleared flag, unsigned, v1, wrong key must be refused (monitor recomputes the signature for anything delivered). Frames emitted by keyed streamwriter.Writer and frame.Writer are verified by the same formula (flag, link id, timestamp, signature).",
        "note": "Trusted: SHA256.tla, MavFrame!SigInput as transcription of the signing document. Node links with OutKey are verified in the node engine traces.",
    },
    "C07": {
        "engine": "stream",
        "design_ref": "DESIGN.md section 4, C07",
        "technique": "TLA+ window monitor with exact 48-bit arithmetic; implementation-shaped model (64-bit wrap-around arithmetic) checked against it by TLC over all reachable (register, newest) pairs; all histories of a boundary alphabet replayed into the real reader and validated",
        "text": "MC_Window explores every history of the 12-symbol boundary alphabet (state = register pair, so all lengths) and shows the coded arithmetic agrees with the property's rule (and finds the wrap-around of the pinned commit in the 'old' variant). All alphabet histories of depth 3 (quick) / 4 (thorough) plus random deeper ones are fed to a fresh real keyed reader (frames signed by TLC) and the accept/refuse sequence is judged by the monitor; outgoing timestamps of keyed writers are checked monotone and within the harness clock.",
        "note": "Trusted: Wide.tla arithmetic; alphabet instead of all 2^48 values (boundaries of the window and of the 48-bit range).",
    },
    "C09": {
        "engine": "stream",
        "design_ref": "DESIGN.md section 4, C09",
        "technique": "PWriter TLA+ monitor (identity, version, flags, checksum, gapless per-link sequence) + IWriter counter model checked by TLC; long mixed write histories on the real writers validated by TLC",
        "text": "MC_Writer checks the counter placement of the code against the monitor under all histories of accepted/refused/failed writes (and shows the gap of the pinned commit in the 'old' variant). Real histories of 700 writes (two wrap-arounds) with refusals at seeded and at every position, all initialisation configurations, on streamwriter.Writer and frame.Writer.WriteMessage (and node links via the node engine) are parsed frame by frame and judged: ids, component default, compat flags, spec checksum and payload, v1 without extensions, refusal of ids above 255, sequence numbers.",
        "note": "Trusted: MavMessage/MavFrame/X25 specs. Deprecated frame.Writer is not required to validate its configuration (only the emission clauses are applied to it).",
    },
    "C08": {
        "engine": "stream",
        "design_ref": "DESIGN.md section 4, C08",
        "technique": "PRoute TLA+ monitor + IRoute model (reader normalisation, canonical re-encoding) checked by TLC on all small payloads; TLC-computed canonical and non-canonical frames routed through real Reader->Writer hops and FixFrame, validated by TLC",
        "text": "MC_Route checks, for every payload up to 5 bytes over {0,1,2} in both versions, that the coded reader normalisation followed by canonical re-encoding forwards a frame whose checksum matches the bytes sent and that the second hop accepts it (the 'old' variant reproduces the stale checksum of the pinned commit). Spec-made frames in 10 encoding variants x ~17 (quick) / all (thorough) message types go through 1..3 real hops with and without dialect and through edit + Node.FixFrame (+ outgoing key); every hop's bytes are judged by the monitor.",
        "note": "Trusted: MavMessage/MavFrame/X25/SHA256 specs. With a dialect, signature validity after re-encoding is only demanded after FixFrame with an outgoing key.",
    },
    "C20": {
        "engine": "stream",
        "design_ref": "DESIGN.md section 4, C20",
        "technique": "PTlog TLA+ monitor + ITlog writer/reader model checked by TLC for all entry sequences, failure points and cut points at mini scale; real writer runs with injected write errors and real reader runs on every file prefix validated by TLC",
        "text": "MC_Tlog explores all sequences of up to 4 encodable/unencodable entries with a transport failure after any prefix of any write and checks every cut point of every reachable file against an abstract reader (the 'old' variant shows the stray timestamp of the pinned commit). Real logs (times around microsecond boundaries, before 1970, raw and dialect frames) are written with an error at the k-th underlying write for every k and with unencodable entries; bytes after each call are compared with BE64(micros) + Marshal(frame); every byte prefix of every log is read back and must yield exactly the complete entries, then an error.",
        "note": "Trusted: MavFrame parser, Wide 64-bit arithmetic; quick samples 10 logs (every cut of short files, every third cut of long ones).",
    },
    "C17": {
        "engine": "wire",
        "design_ref": "DESIGN.md section 4, C17",
        "technique": "complete enumeration by the real code (all 19 dialects x all 2^24 ids, all message types, all enum constants) validated by the PDialect TLA+ monitor with TLC; spec-derived CRC_EXTRA vs published table",
        "text": "The finite universe is enumerated completely: every shipped dialect is initialised and asked for every id in 0..2^24-1 and the hit list must equal the declared messages; each message's extended size (spec-derived) must fit 255; every (message name, id) across dialects must be one Go type; every enum constant name must have one value across dialects; CRC_EXTRA of standard messages (library value and spec-derived value) must equal the published table; 13 user dialects with injected duplicates and malformed structs must be rejected at Initialize exactly when the spec's WellFormedDialect says so.",
        "note": "Trusted: the published CRC_EXTRA table transcribed into PDialect!Golden (about 190 ids); reflection as the definition source.",
    },
    "C19": {
        "engine": "wire",
        "design_ref": "DESIGN.md section 4, C19",
        "technique": "EnumText TLA+ monitor (render/parse rules, wide 64-bit values as byte sequences, decimal rendering in TLA+) checked for satisfiability by TLC; MarshalText/UnmarshalText/String of every shipped enum type probed and validated by TLC",
        "text": "Every defining enum type found in /repo/pkg/dialects at check time (249) is probed: every constant, for bitmasks zero and seeded unions of the defined flags, for ordinary enums boundary and seeded values over the whole uint64 range, and junk texts; TLC judges round trip, name rendering, literal decimal rendering (below 2^63), flag-name lists split at ' | ', and rejection of junk.",
        "note": "Trusted: bitmask-ness inferred from the generated MarshalText (XML not shipped); values sampled, not all 2^64.",
    },
    "C18": {
        "engine": "wire",
        "design_ref": "DESIGN.md section 4, C18",
        "technique": "translation validation: TLA+ meaning function of the dialect XML (XmlDef!Meaning: include order, versions, enum literals, field meaning -> MavMessage layout/CRC_EXTRA) evaluated by TLC against the behaviour of the compiled output of the real generator on grammar-generated documents",
        "text": "For each grammar-generated document set the real conversion.Convert runs twice (determinism), its output is compiled into a probe binary and observed: ids, reflected struct meaning (names, mavname, wire types, arrays, extensions), CRC_EXTRA, sizes, probe encodings, every enum constant, dialect version. TLC computes the same from the XML abstract syntax with the spec's own parser of value literals, include traversal and layout rules and compares. 14 documents per quick run, 300 in thorough.",
        "note": "Trusted: XmlDef.tla/MavMessage.tla as the MAVLink meaning; go build as the judge of 'compiles'; the harness's XML printer (documents are valid by construction; duplicate enum values and over-long payloads are not generated).",
    },
}
