"""Per-property manifest texts."""
HOOK_COMMITS = []
NOT_APPLICABLE = {}

TABLE = {
    "C01": {
        "engine": "wire",
        "design_ref": "DESIGN.md section 4, C01",
        "technique": "TLA+ frame-format specification model-checked with TLC (lossless, prefix-free on a boundary product); TLC-computed vectors replayed into the real reader/writer and real call records validated by the TLA+ monitor",
        "text": "TLC proves on the boundary product that the specified format is a lossless prefix-free code and emits marshalled vectors; every real frame.Writer.Write / frame.Reader.Read call on generated frames (each header byte value, id bits, payload lengths 0..255, every timestamp/signature bit) is recorded and judged by the TLA+ Marshal/Parse operators, so a layout change made consistently in writer and reader is still caught.",
        "note": "Trusted: MavFrame.tla as transcription of the MAVLink serialization document; TLC; the harness's projection of Go frames to JSON (cross-checked by spec-made vectors). Sampling, not exhaustive, over the 2^24 ids / payload contents.",
    },
    "C03": {
        "engine": "wire",
        "design_ref": "DESIGN.md section 4, C03",
        "technique": "TLA+ specification of MAVLink field reordering / sizes / CRC_EXTRA / encoding model-checked on all small definitions; every reflected message definition and per-field probe encoding of the real codec validated by TLC against the spec operators",
        "text": "TLC checks on all definitions with up to 2 (quick) / 3 (thorough) fields that the specified wire order is a stable permutation with extensions last, sizes add up and decode(encode)=canon. The real library is then observed on all 408 shipped message structs plus 9 user structs: CRC_EXTRA and sizes per definition and one-field-at-a-time probe encodings, each record judged by the TLA+ operators (spec-derived layout, not the implementation's).",
        "note": "Trusted: MavMessage.tla as transcription of the MAVLink serialization rules; the Go struct (via reflection) taken as the message definition because the dialect XML is not shipped; TLC.",
    },
    "C04": {
        "engine": "wire",
        "design_ref": "DESIGN.md section 4, C04",
        "technique": "TLA+ Encode/Decode/Canon specification with zero-insensitivity theorems model-checked exhaustively on small definitions and payloads; real Write/Read records (boundary values, arbitrary payload lengths, aliasing windows) validated by TLC",
        "text": "TLC proves for all small definitions and all payloads up to length 5/6 over {0,1,2} that the specified v2 decoder is insensitive to trailing zeros removed/appended and to bytes past the extended size and that v1 accepts exactly the base length. Every real Write/Read call on boundary assignments and arbitrary payloads of every message type is compared with the spec result; panics and writes to the caller's buffer or its spare capacity are observed with a 0xAA-guarded window.",
        "note": "Trusted: MavMessage.tla; the harness's reflection-based projection of message values to little-endian limbs; sampling (not exhaustive) over field values and payload contents.",
    },
}
