"""Driver library for /verif/bin/check: scratch space, builds, TLC runs,
trace validation, verdicts, evidence, known findings.

Exit codes: 0 property held on everything explored (KNOWN-FINDING lines allowed),
1 VIOLATION (a trace recorded from the real code was rejected by a property
monitor and is not a listed known finding), 2 INCONCLUSIVE (infrastructure)."""
import json
import os
import re
import shutil
import subprocess
import sys
import tempfile
import time
from concurrent.futures import ThreadPoolExecutor

VERIF = os.path.dirname(os.path.dirname(os.path.abspath(__file__)))
REPO = os.environ.get("VERIF_REPO", "/repo")
SPEC = os.path.join(VERIF, "spec")
HARNESS = os.path.join(VERIF, "harness")
NCPU = int(os.environ.get("VERIF_WORKERS", str(os.cpu_count() or 4)))
# evidence / replays of experiments against a scratch worktree never land in /verif
OUT = VERIF if REPO == "/repo" else os.path.join(tempfile.gettempdir(), "vf_seed_out")

GOENV = {
    "GOFLAGS": "-mod=mod",
    "GOPROXY": "off",
    "GOSUMDB": "off",
    "GOTOOLCHAIN": "local",
}


class Inconclusive(Exception):
    pass


class Ctx:
    def __init__(self, prop, tier, seed, level="model_checking"):
        self.prop = prop
        self.tier = tier
        self.seed = seed
        self.level = level
        self.t0 = time.time()
        self.scratch = tempfile.mkdtemp(prefix="vf_%s_" % prop)
        self.specdir = os.path.join(self.scratch, "spec")
        shutil.copytree(SPEC, self.specdir)
        self.mvh = None
        self.findings = []      # (key, what, replay_object)
        self.cov = {
            "states": 0, "transitions": 0, "traces_validated_against_impl": 0,
            "evaluations": 0, "distinct_nontrivial": 0, "rule": "", "samples": [],
            "tlc_runs": [],
        }
        self.assumptions = []
        self.notes = []
        self.distinct = set()
        self.round = 0           # thorough tier: the check body runs several rounds with derived seeds
        self.base_seed = seed
        self._mc_done = {}       # exhaustive model-checking runs are not repeated in later rounds
        self._acc = {}           # numeric coverage summed over rounds

    # ------------------------------------------------------------------ utils
    def thorough(self):
        return self.tier == "thorough"

    def path(self, name):
        return os.path.join(self.scratch, name)

    def cleanup(self):
        if os.environ.get("VERIF_KEEP"):
            print("scratch kept:", self.scratch, flush=True)
            return
        shutil.rmtree(self.scratch, ignore_errors=True)

    def log(self, *a):
        print("[%s %6.1fs]" % (self.prop, time.time() - self.t0), *a, flush=True)

    # ------------------------------------------------------------------ build
    def build_mvh_386(self):
        """The harness built for a 32-bit platform (GOARCH=386, runs on this machine): word-size slips in the codec."""
        self.build_mvh()
        env = dict(os.environ)
        env.update(GOENV)
        env.update({"GOARCH": "386", "CGO_ENABLED": "0"})
        out = self.path("mvh_386")
        p = subprocess.run(["go", "build", "-tags", "verif", "-o", out, "./cmd/mvh"], cwd=self.path("harness"), env=env,
                           capture_output=True, text=True)
        if p.returncode != 0:
            raise Inconclusive("386 harness build failed:\n" + p.stdout + p.stderr)
        return out

    def build_mvh(self, race=False):
        """Build the harness against /repo's current working tree, hooks on. The harness sources are copied
        to the scratch directory first (checks may run concurrently) and the enum registry is regenerated
        from /repo/pkg/dialects."""
        env = dict(os.environ)
        env.update(GOENV)
        hdir = self.path("harness")
        if not os.path.isdir(hdir):
            shutil.copytree(HARNESS, hdir)
            shutil.copy(os.path.join(REPO, "go.sum"), os.path.join(hdir, "go.sum"))
            if REPO != "/repo":
                # experiments against a scratch worktree (seeded changes): VERIF_REPO=<dir>
                gm = os.path.join(hdir, "go.mod")
                txt = open(gm).read().replace("=> /repo", "=> " + REPO)
                open(gm, "w").write(txt)
            g = subprocess.run([sys.executable, os.path.join(VERIF, "lib", "genenums.py"), REPO,
                                os.path.join(hdir, "cmd", "mvh", "zz_enums_gen.go")], capture_output=True, text=True)
            if g.returncode != 0:
                raise Inconclusive("enum registry generation failed: " + g.stdout + g.stderr)
        out = self.path("mvh_race" if race else "mvh")
        cmd = ["go", "build", "-tags", "verif"] + (["-race"] if race else []) + ["-o", out, "./cmd/mvh"]
        p = subprocess.run(cmd, cwd=hdir, env=env, capture_output=True, text=True)
        if p.returncode != 0:
            raise Inconclusive("harness build failed:\n" + p.stdout + p.stderr)
        if not race:
            self.mvh = out
        return out

    def run_mvh(self, args, timeout=900, binary=None, env_extra=None, check=True):
        env = dict(os.environ)
        env.update(GOENV)
        if env_extra:
            env.update(env_extra)
        try:
            p = subprocess.run([binary or self.mvh] + [str(a) for a in args], cwd=self.scratch, env=env, stdin=subprocess.DEVNULL,
                               capture_output=True, text=True, timeout=timeout)
        except subprocess.TimeoutExpired:
            raise Inconclusive("mvh %s timed out after %ds" % (args[0], timeout))
        if check and p.returncode != 0:
            raise Inconclusive("mvh %s failed rc=%d:\n%s%s" % (args[0], p.returncode, p.stdout[-2000:], p.stderr[-4000:]))
        return p

    # -------------------------------------------------------------------- TLC
    def tlc(self, module, cfg=None, env=None, workers=None, timeout=900, extra=(), heap="4g",
            deque=False, tag=None, count=True):
        """Run TLC on spec/<module>.tla inside the scratch copy. Returns (rc, output)."""
        workers = workers or NCPU
        md = tempfile.mkdtemp(prefix="md_", dir=self.scratch)
        e = dict(os.environ)
        # TLC's own temporary files go into the check's scratch directory (removed with it), not into /tmp
        jto = "-Xmx%s -Xss64m -Djava.io.tmpdir=%s" % (heap, md)
        if deque:
            jto += " -Dtlc2.tool.queue.IStateQueue=StateDeque"
        e["JAVA_TOOL_OPTIONS"] = jto
        if env:
            e.update({k: str(v) for k, v in env.items()})
        cmd = ["timeout", str(timeout), "tlc", "-workers", str(workers), "-metadir", md]
        if cfg:
            cmd += ["-config", cfg]
        cmd += list(extra) + [module + ".tla"]
        t = time.time()
        p = subprocess.run(cmd, cwd=self.specdir, env=e, capture_output=True, text=True)
        dt = time.time() - t
        shutil.rmtree(md, ignore_errors=True)
        out = p.stdout + p.stderr
        if p.returncode == 124:
            raise Inconclusive("TLC %s timed out after %ds" % (module, timeout))
        st = parse_tlc_stats(out)
        run = {"module": module, "cfg": cfg or module + ".cfg", "tag": tag, "rc": p.returncode,
               "wall_s": round(dt, 1), "generated": st[0], "distinct": st[1]}
        self.cov["tlc_runs"].append(run)
        if count and tag and tag.startswith("mc"):
            self.cov["states"] += st[1]
            self.cov["transitions"] += st[0]
        return p.returncode, out

    def mc(self, module, cfg=None, timeout=900, env=None, extra=(), heap="8g", workers=None, expect_ok=True):
        """Exhaustive model-checking run of a Layer-I / foundation model (spec-side result).
        A failure here is a statement about the MODEL; it never yields a VIOLATION."""
        mkey = (module, cfg, json.dumps(env, sort_keys=True, default=str), tuple(extra))
        if mkey in self._mc_done:
            return self._mc_done[mkey]
        rc, out = self.tlc(module, cfg, env=env, timeout=timeout, extra=extra, heap=heap,
                           workers=workers, tag="mc:" + (cfg or module))
        ok = rc == 0 and "No error has been found" in out
        if ok:
            self._mc_done[mkey] = (ok, out)
        if expect_ok and not ok:
            raise Inconclusive("model check %s/%s did not pass (rc=%d):\n%s" % (module, cfg, rc, tail(out, 60)))
        return ok, out

    def apalache(self, module, cfg, timeout=300):
        """Discharge an inductive invariant with Apalache: base case (Init => IndInv, length 0) and step
        (IndInit /\\ Next => IndInv', length 1). Returns True iff both report NoError. Spec-side result."""
        if ("apalache", module, cfg) in self._mc_done:
            return True
        results = []
        for init, length in (("Init", 0), ("IndInit", 1)):
            out_dir = tempfile.mkdtemp(prefix="apa_", dir=self.scratch)
            cmd = ["timeout", str(timeout), "apalache-mc", "check", "--config=" + cfg, "--init=" + init, "--inv=IndInv",
                   "--length=%d" % length, "--out-dir=" + out_dir, module + ".tla"]
            t = time.time()
            p = subprocess.run(cmd, cwd=self.specdir, capture_output=True, text=True)
            ok = "The outcome is: NoError" in p.stdout
            results.append(ok)
            self.cov["tlc_runs"].append({"module": module, "cfg": cfg, "tag": "apalache:%s/len%d" % (init, length), "rc": p.returncode,
                                         "wall_s": round(time.time() - t, 1), "generated": 0, "distinct": 0})
            shutil.rmtree(out_dir, ignore_errors=True)
            if p.returncode == 124:
                raise Inconclusive("apalache %s timed out" % module)
        self.cov.setdefault("apalache_obligations", []).append({"module": module, "cfg": cfg, "base": results[0], "step": results[1]})
        if all(results):
            self._mc_done[("apalache", module, cfg)] = True
        return all(results)

    def validate(self, module, traces, cfg=None, timeout=900, env=None, per_proc=1, deque=False, heap="3g"):
        """Validate ndjson traces recorded from the real code with a Trace_* module.
        Returns list of (trace_path, [reject tuples], walked:boolean, raw output)."""
        results = []

        def one(tr):
            e = {"TRACE": tr}
            if env:
                e.update(env)
            rc, out = self.tlc(module, cfg, env=e, workers=1, timeout=timeout, deque=deque, heap=heap,
                               tag="trace:" + os.path.basename(tr))
            rejects = parse_rejects(out)
            if len(rejects) != len(re.findall(r'"REJECT"', out)):
                raise Inconclusive("could not parse every REJECT line of %s on %s" % (module, tr))
            walked = re.search(r'<<\s*"WALKED",\s*(\d+)\s*>>', out)
            if rc != 0 and not rejects and not walked:
                raise Inconclusive("trace validation %s on %s failed rc=%d:\n%s" % (module, tr, rc, tail(out, 50)))
            if not walked:
                raise Inconclusive("trace validation %s on %s did not walk the whole trace rc=%d:\n%s"
                                   % (module, tr, rc, tail(out, 50)))
            return (tr, rejects, int(walked.group(1)), out)

        with ThreadPoolExecutor(max_workers=max(1, NCPU // 1)) as ex:
            for r in ex.map(one, traces):
                results.append(r)
        return results

    # --------------------------------------------------------------- verdicts
    def finding(self, key, what, replay):
        self.findings.append((key, what, replay))

    def sample(self, obj, limit=6):
        if len(self.cov["samples"]) < limit:
            self.cov["samples"].append(obj)

    def finish(self):
        known = load_known()
        viol = 0
        lines = []
        seen_keys = set()
        os.makedirs(os.path.join(OUT, "replays", self.prop), exist_ok=True)
        # replay files of an earlier run of the same (tier, seed) do not outlive it
        for fn in os.listdir(os.path.join(OUT, "replays", self.prop)):
            if fn.startswith("%s-%d-" % (self.tier, self.seed)):
                os.unlink(os.path.join(OUT, "replays", self.prop, fn))
        grouped = {}
        for key, what, replay in self.findings:
            if key not in grouped:
                grouped[key] = [what, replay, 0]
            grouped[key][2] += 1
        for key, (what, replay, cnt) in grouped.items():
            what = "%s (x%d)" % (what, cnt)
            k = match_known(known, self.prop, key)
            if k is not None:
                if k["key"] not in seen_keys:
                    seen_keys.add(k["key"])
                    lines.append("KNOWN-FINDING: property=%s %s" % (self.prop, k.get("what", key)))
                continue
            viol += 1
            rp = os.path.join(OUT, "replays", self.prop, "%s-%d-%d.json" % (self.tier, self.seed, viol))
            if viol <= 20:
                with open(rp, "w") as f:
                    json.dump({"property": self.prop, "key": key, "what": what, "tier": self.tier,
                               "seed": self.seed, "replay": replay}, f, indent=1, default=str)
                lines.append("VIOLATION property=%s replay=%s" % (self.prop, rp))
                lines.append("  key=%s :: %s" % (key, what))
        self.write_evidence(viol)
        for ln in lines:
            print(ln, flush=True)
        self.cleanup()
        if viol:
            print("RESULT property=%s tier=%s seed=%d violations=%d" % (self.prop, self.tier, self.seed, viol))
            return 1
        print("RESULT property=%s tier=%s seed=%d OK (%.1fs)" % (self.prop, self.tier, self.seed, time.time() - self.t0))
        return 0

    def write_evidence(self, viol):
        cov = dict(self.cov)
        if not cov.get("distinct_nontrivial"):
            cov["distinct_nontrivial"] = len(self.distinct)
        if self.notes:
            cov["notes"] = self.notes
        if self.level == "model_checking":
            cov["states"] = max(1, cov["states"])
            cov["transitions"] = max(1, cov["transitions"])
        ev = {
            "property_id": self.prop, "tier": self.tier, "seed": self.seed, "level": self.level,
            "coverage": cov, "assumptions": self.assumptions,
            "wall_s": round(time.time() - self.t0, 1), "violations": viol,
        }
        os.makedirs(os.path.join(OUT, "evidence"), exist_ok=True)
        with open(os.path.join(OUT, "evidence", self.prop + ".json"), "w") as f:
            json.dump(ev, f, indent=1, default=str)


def tail(s, n):
    return "\n".join(s.splitlines()[-n:])


def parse_tlc_stats(out):
    m = re.findall(r"(\d+) states generated, (\d+) distinct states found", out)
    if not m:
        return (0, 0)
    g, d = m[-1]
    return (int(g), int(d))


def _balanced_end(text, i):
    """index just after the tuple that starts at text[i:i+2] == '<<' (brackets << >>, { }, [ ], strings respected)"""
    depth = 0
    n = len(text)
    in_str = False
    while i < n:
        ch = text[i]
        if in_str:
            if ch == "\\":
                i += 2
                continue
            if ch == '"':
                in_str = False
            i += 1
            continue
        if ch == '"':
            in_str = True
            i += 1
            continue
        two = text[i:i + 2]
        if two == "<<":
            depth += 1
            i += 2
            continue
        if two == ">>":
            depth -= 1
            i += 2
            if depth == 0:
                return i
            continue
        i += 1
    return -1


_rej_head = re.compile(r'<<\s*"REJECT",\s*(\d+),\s*(-?\d+),\s*"([^"]*)",\s*')


def reject_tuples(out):
    """All <<"REJECT", ...>> tuples printed by the Trace_* modules, whether TLC printed them on one line or
    pretty-printed them over several. Yields (line, seq, kind, rest_text) with rest_text = everything after the kind."""
    pos = 0
    while True:
        m = re.search(r'<<\s*"REJECT"', out[pos:])
        if not m:
            return
        start = pos + m.start()
        end = _balanced_end(out, start)
        if end < 0:
            return
        body = re.sub(r"\s+", " ", out[start:end])
        h = _rej_head.match(body)
        if h:
            yield int(h.group(1)), int(h.group(2)), h.group(3), body[h.end():-2].strip()
        pos = end


def _split_top(rest):
    """split 'A, B' at the first top-level comma after the first balanced { } set"""
    depth = 0
    i = 0
    n = len(rest)
    while i < n:
        two = rest[i:i + 2]
        ch = rest[i]
        if two in ("<<",):
            depth += 1
            i += 2
            continue
        if two == ">>":
            depth -= 1
            i += 2
            continue
        if ch in "{[(":
            depth += 1
        elif ch in "}])":
            depth -= 1
        elif ch == "," and depth == 0:
            return rest[:i].strip(), rest[i + 1:].strip()
        i += 1
    return rest.strip(), None


def parse_rejects(out):
    """REJECT tuples: (line, seq, kind, [clause names], extra text or None)."""
    res = []
    for line, seq, kind, rest in reject_tuples(out):
        clauses_txt, extra = _split_top(rest)
        clauses = re.findall(r'"([^"]+)"', clauses_txt)
        res.append((line, seq, kind, clauses, extra))
    return res


def read_ndjson(path):
    with open(path) as f:
        return [json.loads(x) for x in f if x.strip()]


def load_known():
    p = os.path.join(VERIF, "known_findings.json")
    if not os.path.exists(p):
        return {"known": [], "fixed": []}
    with open(p) as f:
        return json.load(f)


def match_known(known, prop, key):
    for k in known.get("known", []):
        if k["property"] == prop and re.fullmatch(k["key"], key):
            return k
    return None


def split_ndjson(path, parts, outprefix):
    """Split an ndjson trace into `parts` files of contiguous lines. Returns [(path, first_line_index)]."""
    with open(path) as f:
        lines = f.readlines()
    n = len(lines)
    if n == 0:
        return []
    parts = max(1, min(parts, n))
    size = (n + parts - 1) // parts
    res = []
    for i in range(0, n, size):
        p = "%s.%03d.ndjson" % (outprefix, len(res))
        with open(p, "w") as g:
            g.writelines(lines[i:i + size])
        res.append((p, i))
    return res


# thorough tier: number of rounds (independent seeds) of each check body, fitted to the measured time of one round
# (about 10-15 minutes per property on 16 cores); exhaustive model-checking runs are done once
THOROUGH_ROUNDS = {"C01": 12, "C02": 4, "C03": 4, "C04": 5, "C05": 8, "C06": 8, "C07": 6, "C08": 12, "C09": 12, "C10": 4, "C11": 4,
                   "C12": 2, "C13": 4, "C14": 6, "C15": 1, "C16": 2, "C17": 1, "C18": 10, "C19": 6, "C20": 15}


def main(checks):
    import argparse
    ap = argparse.ArgumentParser()
    ap.add_argument("prop")
    ap.add_argument("--tier", default=os.environ.get("VERIF_TIER", "quick"))
    ap.add_argument("--seed", type=int, default=int(os.environ.get("VERIF_SEED", "1")))
    ap.add_argument("--replay", default=None)
    a = ap.parse_args()
    if a.prop not in checks:
        print("no check for", a.prop)
        return 2
    fn, level = checks[a.prop]
    ctx = Ctx(a.prop, a.tier, a.seed, level)
    if a.replay:
        with open(a.replay) as f:
            rp = json.load(f)
        ctx.tier = rp.get("tier", ctx.tier)
        ctx.seed = rp.get("seed", ctx.seed)
        print("replaying with tier=%s seed=%d (the check is deterministic in the seed)" % (ctx.tier, ctx.seed))
    rounds = 1
    if ctx.tier == "thorough":
        rounds = int(os.environ.get("VERIF_ROUNDS", "0")) or THOROUGH_ROUNDS.get(a.prop, 1)
    try:
        summed = ("traces_validated_against_impl", "evaluations")
        for rnd in range(rounds):
            ctx.round = rnd
            ctx.seed = ctx.base_seed + 7919 * rnd
            if rounds > 1:
                ctx.log("round %d of %d (seed %d)" % (rnd + 1, rounds, ctx.seed))
            for k in summed:
                ctx.cov[k] = 0
            n_ass = len(ctx.assumptions)
            fn(ctx)
            if rnd > 0:
                del ctx.assumptions[n_ass:]      # the same sentences again
            for k in summed:
                ctx._acc[k] = ctx._acc.get(k, 0) + (ctx.cov.get(k) or 0)
        for k in summed:
            ctx.cov[k] = ctx._acc.get(k, 0)
        if rounds > 1:
            ctx.cov["rounds"] = rounds
            ctx.cov["round_seeds"] = [ctx.base_seed + 7919 * r for r in range(rounds)]
        ctx.seed = ctx.base_seed
        return ctx.finish()
    except Inconclusive as e:
        print("INCONCLUSIVE property=%s: %s" % (a.prop, e), flush=True)
        ctx.cleanup()
        return 2
    except Exception:
        import traceback
        traceback.print_exc()
        print("INCONCLUSIVE property=%s: driver exception" % a.prop, flush=True)
        ctx.cleanup()
        return 2
