"""Seeded scenario families for the node player (`mvh node`). A scenario is a JSON document: node
configuration, endpoints and a list of steps (see harness/cmd/mvh/node.go). These families give breadth
(endpoint kinds, histories, fault positions); the TLC-generated schedules (Gen_Node) give the narrow
interleavings. Nothing here decides anything: every recorded trace is judged by the PNode monitor."""
import random

KEY = [(i * 7 + 3) % 256 for i in range(32)]


def conf(**kw):
    c = {"version": 2, "sys": 10, "comp": 0, "dialect": "common", "inkey": [], "outkey": [], "hb_disable": True,
         "hb_period_ms": 0, "hb_systype": 0, "hb_autopilot": 0, "sr_enable": False, "sr_freq": 0, "idle_ms": 0,
         "read_ms": 0, "write_ms": 0, "reconnect_ms": 100, "expect_init": "", "idle_silent": [], "idle_active": [],
         "skip_hb_rate": True}
    c.update(kw)
    return c


def customs(n):
    return [{"kind": "custom"} for _ in range(n)]


def opens(n):
    return [{"op": "wait_open", "ep": i} for i in range(n)]


class Tags:
    def __init__(self, start=1):
        self.n = start

    def next(self):
        self.n += 1
        return self.n


def feed(ep, kind, tag, chunks=None, peer=0, **item):
    it = {"kind": kind, "tag": tag}
    it.update(item)
    s = {"op": "feed", "ep": ep, "peer": peer, "item": it}
    if chunks:
        s["chunks"] = chunks
    return s


def write(g, kind, tag, ep=None, inst=1, target=None, sync=False, bad="", raw=False, foreign=False):
    s = {"op": "write", "g": g, "kind": kind, "tag": tag, "sync": sync, "bad": bad, "raw": raw, "foreign": foreign}
    if ep is not None:
        s.update({"target": "ep", "ep": ep, "inst": inst})
    if target:
        s["target"] = target
    return s


KINDS = ["MsgAll", "MsgTo", "MsgExcept", "FrameAll", "FrameTo", "FrameExcept"]


# --------------------------------------------------------------------------- C10
def fam_events(rng, n, thorough=False):
    out = []
    for i in range(n):
        t = Tags(1000 * (i + 1))
        k = rng.randint(1, 4)
        keyed = rng.random() < 0.3
        # the incoming key filters input whatever version the node itself writes: half of the keyed nodes write v1
        c = conf(inkey=KEY if keyed else [], version=1 if (keyed and i % 2 == 1) or (not keyed and i % 5 == 4) else 2)
        steps = opens(k)
        kinds = ["valid", "valid", "valid", "badck", "junk"] + (["badsig", "unsigned", "v1"] if keyed else ["v1"])
        closing_window = rng.random() < 0.4
        slow = rng.random() < 0.4
        nfeed = rng.randint(3, 25)
        faulted = set()
        inst = {e: 1 for e in range(k)}
        ewd = [rng.random() < 0.5 for _ in range(k)]     # transports that hand over the last bytes together with the error
        for j in range(nfeed):
            ep = rng.randrange(k)
            kind = rng.choice(kinds)
            chunks = rng.choice([None, [1], [2, 3], [5], [rng.randint(1, 9)]])
            steps.append(feed(ep, kind, t.next(), chunks))
            r = rng.random()
            if slow and r < 0.15:
                steps.append({"op": "consumer", "run": False})
                steps.append({"op": "sleep", "ms": rng.randint(1, 15)})
                steps.append({"op": "consumer", "run": True})
            elif r < 0.25:
                steps.append(write(1 + rng.randrange(2), rng.choice(["MsgAll", "FrameAll"]), t.next()))
            elif r < 0.32 and not closing_window:
                # transport failure: the channel must report everything fed before, then close, then a new one opens
                steps.append({"op": "read_err", "ep": ep, "err": rng.choice(["", "", "deadline", "net_timeout", "eof", "unexpected_eof", "closed_pipe", "net_closed"])})
                inst[ep] += 1
                steps.append({"op": "wait_close", "ep": ep, "n": inst[ep] - 1})
                steps.append({"op": "wait_open", "ep": ep, "n": inst[ep]})
        if k >= 2 and i % 2 == 0:
            # the same message type arriving on several channels at the same instant (the channels share the codec)
            items = []
            for rep in range(12):
                for ep in range(k):
                    items.append({"ep": ep, "item": {"kind": "valid", "tag": t.next()}})
            steps.append({"op": "burst", "items": items})
        if closing_window:
            # Close while frames are still queued and the consumer keeps receiving
            for j in range(rng.randint(2, 6)):
                steps.append(feed(rng.randrange(k), "valid", t.next()))
            steps.append({"op": "close", "from": rng.choice(["main", "async"])})
        else:
            steps.append({"op": "quiesce"})
        out.append({"name": "events/%d" % i, "conf": c,
                    "endpoints": [{"kind": "custom", "err_with_data": ewd[e]} for e in range(k)], "steps": steps})
    # nothing but rejected input for longer than the idle timeout (the transport is busy all the time), then valid frames:
    # parse errors only, the channel stays, every valid frame is delivered
    for kind in ["custom", "tcp_server", "udp_server"]:
        t = Tags(900000 + 1000 * len(out))
        steps = []
        peer = 0 if kind == "custom" else 1
        if kind == "custom":
            steps += opens(1) + [feed(0, "valid", t.next())]
        else:
            steps += [{"op": "peer_connect", "ep": 0, "peer": 1}, feed(0, "valid", t.next(), peer=1), {"op": "wait_open", "ep": 0, "n": 1}]
        for j in range(16):
            steps.append(feed(0, ["junk", "badck"][j % 2], t.next(), peer=peer))
            steps.append({"op": "sleep", "ms": 50})
        for j in range(5):
            steps.append(feed(0, "valid", t.next(), peer=peer))
            steps.append({"op": "sleep", "ms": 5})
        steps.append({"op": "quiesce", "ms": 300})
        out.append({"name": "events/noise_longer_than_idle_timeout_%s" % kind, "conf": conf(idle_ms=300, idle_active=[[0, 1]]),
                    "endpoints": [{"kind": kind}], "steps": steps})
    # every sender has its own clock: a keyed node hears two senders whose clocks are 30 s apart, on two channels at the same
    # time and on one endpoint one after the other - every correctly signed frame of both is an event (the replay window
    # belongs to a link of a sender, it is not a property of the node)
    for kind in ["custom", "tcp_server", "tcp_server_one_after_the_other"]:
        t = Tags(950000 + 1000 * len(out))
        if kind == "custom":
            steps = opens(2)
            for j in range(6):
                steps.append(feed(0, "valid", t.next(), sys=42))
                steps.append(feed(1, "valid", t.next(), sys=43, ts_back_s=30))
                steps.append({"op": "sleep", "ms": 5})
            eps = customs(2)
        elif kind == "tcp_server":
            steps = [{"op": "peer_connect", "ep": 0, "peer": 1}, {"op": "peer_connect", "ep": 0, "peer": 2}]
            for j in range(6):
                steps.append(feed(0, "valid", t.next(), peer=1, sys=42))
                steps.append(feed(0, "valid", t.next(), peer=2, sys=43, ts_back_s=30))
                steps.append({"op": "sleep", "ms": 5})
            eps = [{"kind": "tcp_server"}]
        else:
            steps = [{"op": "peer_connect", "ep": 0, "peer": 1}]
            for j in range(4):
                steps.append(feed(0, "valid", t.next(), peer=1, sys=42))
            steps += [{"op": "wait_open", "ep": 0, "n": 1}, {"op": "quiesce", "ms": 100}, {"op": "read_err", "ep": 0, "peer": 1},
                      {"op": "wait_close", "ep": 0, "n": 1}, {"op": "peer_connect", "ep": 0, "peer": 2}]
            for j in range(4):
                steps.append(feed(0, "valid", t.next(), peer=2, sys=43, ts_back_s=30))
            eps = [{"kind": "tcp_server"}]
        steps.append({"op": "quiesce", "ms": 300})
        out.append({"name": "events/sender_clocks_30s_apart_%s" % kind, "conf": conf(inkey=KEY), "endpoints": eps, "steps": steps})
    # what the node remembers about a channel outlives the channel: with stream requests enabled an ArduPilot vehicle is heard
    # twice on channel 0, which then fails and is replaced; the node lives on past the 30 s and 60 s ticks of the stream-request
    # cleaner (another vehicle keeps talking on channel 1). Nothing may arrive for the closed channel after its close event.
    t = Tags(960000 + 1000 * len(out))
    steps = opens(2) + [feed(0, "hb", t.next(), sys=1, comp=1, autopilot=3), {"op": "sleep", "ms": 300},
                        feed(0, "hb", t.next(), sys=1, comp=1, autopilot=3), {"op": "sleep", "ms": 300},
                        {"op": "read_err", "ep": 0}, {"op": "wait_close", "ep": 0, "n": 1}, {"op": "wait_open", "ep": 0, "n": 2}]
    for j in range(61):
        steps.append(feed(1, "hb", t.next(), sys=2, comp=1, autopilot=3))
        steps.append({"op": "sleep", "ms": 1000})
    steps.append({"op": "quiesce", "ms": 500})
    out.append({"name": "events/stream_request_table_outlives_a_closed_channel", "conf": conf(sr_enable=True), "endpoints": customs(2), "steps": steps})
    return out


def fam_events_gated(rng, n):
    """Close lands while a reader is parked just before its open event / a frame event (the narrow windows).
    The points are visited in turn; the transport is pipe-like (data queued before Close stays readable); in every
    second scenario the consumer is stopped while Close starts, so that the parked event is certainly dropped, and
    resumed afterwards - anything delivered then without its predecessors is a violation."""
    out = []
    points = ["rd.pushOpen", "rd.pushEvent", "rd.pushOpen", "run.pushClose", "rd.pushOpen", "rd.read"]
    for i in range(n):
        t = Tags(5000 * (i + 1))
        point = points[i % 6]
        pause = (i // 6) % 2 == 0
        steps = []
        c = conf()
        if point == "rd.pushOpen":
            steps.append({"op": "hold_at_start", "point": point, "ep": 0})
            for j in range(6):
                steps.append(feed(0, "valid", t.next()))
            steps.append({"op": "wait_held", "point": point, "ep": 0})
        else:
            steps += opens(1)
            steps.append(feed(0, "valid", t.next()))
            steps.append({"op": "quiesce", "ms": 300})
            steps.append({"op": "hold", "point": point, "ep": 0})
            for j in range(6):
                steps.append(feed(0, "valid", t.next()))
            if point == "run.pushClose":
                steps.append({"op": "read_err", "ep": 0})
            steps.append({"op": "wait_held", "point": point, "ep": 0})
        chain = point == "rd.pushOpen"
        if chain:
            # the reader, should it go on after its open event was dropped, is parked again before its first frame event
            # and let go only when the consumer is receiving again
            pause = True
            steps.insert(0, {"op": "hold_at_start", "point": "rd.pushEvent", "ep": 0})
        if pause:
            steps.append({"op": "consumer", "run": False})
        steps.append({"op": "close", "from": "async"})
        steps.append({"op": "sleep", "ms": rng.randint(2, 8)})
        steps.append({"op": "release", "point": point, "ep": 0})
        if chain:
            steps.append({"op": "wait_held", "point": "rd.pushEvent", "ep": 0, "ms": 150})
        if pause:
            steps.append({"op": "sleep", "ms": 5})
            steps.append({"op": "consumer", "run": True})
        if chain:
            steps.append({"op": "sleep", "ms": 5})
            steps.append({"op": "release", "point": "rd.pushEvent", "ep": 0})
        steps.append({"op": "wait_closed"})
        out.append({"name": "events_gated/%s/%d" % (point, i), "conf": c,
                    "endpoints": [{"kind": "custom", "drain": True}], "steps": steps})
    return out


def fam_events_server(rng, n):
    out = []
    for i in range(n):
        t = Tags(9000 * (i + 1))
        kind = rng.choice(["tcp_server", "udp_server"])
        steps = []
        npeers = rng.randint(1, 3)
        for p in range(1, npeers + 1):
            steps.append({"op": "peer_connect", "ep": 0, "peer": p})
            steps.append(feed(0, "valid", t.next(), peer=p))      # udp channels exist from the first datagram on
            steps.append({"op": "wait_open", "ep": 0, "n": p})
        for j in range(rng.randint(3, 12)):
            p = rng.randint(1, npeers)
            steps.append(feed(0, rng.choice(["valid", "valid", "badck", "junk"]), t.next(), peer=p,
                              chunks=None if kind == "udp_server" else rng.choice([None, [1], [4]])))
            if kind == "udp_server":
                steps.append({"op": "sleep", "ms": 2})
        # many frames in one transport write (for UDP: one datagram of 300..500 bytes)
        steps.append({"op": "feed_pack", "ep": 0, "peer": rng.randint(1, npeers),
                      "items": [{"ep": 0, "item": {"kind": "valid", "tag": t.next()}} for _ in range(rng.randint(15, 23))]})
        steps.append({"op": "sleep", "ms": 5})
        steps.append({"op": "write", "g": 1, "kind": "MsgAll", "tag": t.next(), "sync": True, "bad": "", "raw": False})
        if kind == "tcp_server" and rng.random() < 0.6:
            p = rng.randint(1, npeers)
            steps.append({"op": "quiesce", "ms": 500})
            steps.append({"op": "read_err", "ep": 0, "peer": p})
            steps.append({"op": "wait_close", "ep": 0, "n": p})
            # the server keeps accepting
            steps.append({"op": "peer_connect", "ep": 0, "peer": npeers + 1})
            steps.append({"op": "wait_open", "ep": 0, "n": npeers + 1})
            steps.append(feed(0, "valid", t.next(), peer=npeers + 1))
        steps.append({"op": "quiesce"})
        out.append({"name": "events_server/%s/%d" % (kind, i), "conf": conf(), "endpoints": [{"kind": kind}], "steps": steps})
    return out


# --------------------------------------------------------------------------- C11
def fam_fanout(rng, n, thorough=False):
    out = []
    for i in range(n):
        t = Tags(20000 * (i + 1))
        k = rng.randint(2, 5)
        ng = rng.randint(2, 4)
        keyed = rng.random() < 0.15
        ver = rng.choice([2, 2, 1]) if not keyed else 2
        c = conf(version=ver, outkey=KEY if keyed else [], comp=rng.choice([0, 7]), sys=rng.choice([1, 10, 255]),
                 reuse_msgs=(i % 3 == 1))     # a third of the scenarios: each writer goroutine reuses one message struct
        steps = opens(k)
        nw = rng.randint(20, 200 if thorough else 90)
        if keyed:
            nw = min(nw, 30)
        dead = None
        if rng.random() < 0.3:
            # one endpoint loses its channel in the middle: writes to the closed instance are ignored
            dead = rng.randrange(k)
        for j in range(nw):
            g = 1 + rng.randrange(ng)
            kind = rng.choice(KINDS)
            if kind.endswith("All"):
                steps.append(write(g, kind, t.next()))
            else:
                r = rng.random()
                if r < 0.08:
                    steps.append(write(g, kind, t.next(), target="foreign") if kind.endswith("To") else write(g, kind.replace("Except", "All"), t.next()))
                else:
                    steps.append(write(g, kind, t.next(), ep=rng.randrange(k)))
            if rng.random() < 0.15:
                steps.append(feed(rng.randrange(k), "valid", t.next()))
            if dead is not None and j == nw // 2:
                steps.append({"op": "wait_writes"})
                steps.append({"op": "read_err", "ep": dead})
                steps.append({"op": "wait_close", "ep": dead, "n": 1})
                steps.append({"op": "wait_open", "ep": dead, "n": 2})
                # a write naming the closed instance
                steps.append(write(g, "MsgTo", t.next(), ep=dead, inst=1))
        steps.append({"op": "wait_writes"})
        steps.append({"op": "quiesce"})
        out.append({"name": "fanout/%d" % i, "conf": c, "endpoints": customs(k), "steps": steps})
    # a steady stream that lasts three write timeouts (one item every 20 ms for 1.3 s under a 400 ms write timeout) on
    # connections with per-write deadlines: every item reaches the peer
    for kind in ["tcp_server", "tcp_client", "udp_client"]:
        t = Tags(18000 + 200 * ["tcp_server", "tcp_client", "udp_client"].index(kind))
        if kind == "tcp_server":
            steps = [{"op": "peer_connect", "ep": 0, "peer": 1}, {"op": "wait_open", "ep": 0, "n": 1}]
        else:
            steps = [{"op": "wait_open", "ep": 0, "n": 1}, {"op": "sleep", "ms": 20}]
        steps.append(write(1, "MsgAll", t.next(), sync=True))
        if kind == "udp_client":
            steps.append({"op": "wait_peer", "ep": 0, "peer": 1})
        for j in range(65):
            steps.append(write(1, "MsgAll" if j % 3 else "MsgTo", t.next(), ep=0 if j % 3 == 0 else None, sync=True))
            steps.append({"op": "sleep", "ms": 20})
        steps.append({"op": "quiesce", "ms": 600})
        out.append({"name": "fanout/steady_stream_longer_than_write_timeout_%s" % kind, "conf": conf(write_ms=400, reconnect_ms=100),
                    "endpoints": [{"kind": kind}], "steps": steps})
    # a router whose dialect is smaller than the traffic it forwards: already encoded frames of a message id the node's dialect
    # does not contain (and, in the second scenario, a node without any dialect) go out like any other forwarded frame
    for dialect in ["common", "none"]:
        t = Tags(18800 + (50 if dialect == "none" else 0))
        steps = opens(3)
        for j in range(12):
            kind = ["FrameAll", "FrameTo", "FrameExcept"][j % 3]
            steps.append(write(1 + j % 2, kind, t.next(), ep=(j % 3) if kind != "FrameAll" else None, foreign=(j % 4 != 3 or dialect == "none"), sync=(j % 5 == 0)))
        steps.append({"op": "quiesce", "ms": 800})
        out.append({"name": "fanout/forwarded_frames_of_ids_the_dialect_lacks_%s" % dialect, "conf": conf(dialect=dialect), "endpoints": customs(3), "steps": steps})
    # a backlog behind a transport write that fails (plain error, deadline exceeded, a net timeout, unexpected EOF, closed pipe),
    # then the transport works again: what reaches the wire is still in submission order
    for j, err in enumerate(["", "deadline", "net_timeout", "eof", "closed_pipe", "net_error", "conn_refused"]):
        t = Tags(19000 + 100 * j)
        steps = opens(2) + [{"op": "twrite_mode", "ep": 0, "mode": "block", "at": 2}]
        for w in range(12):
            steps.append(write(1, ["MsgAll", "FrameAll", "MsgTo", "MsgExcept"][w % 4], t.next(), ep=0 if w % 4 == 2 else (1 if w % 4 == 3 else None)))
        steps += [{"op": "wait_writes"}, {"op": "sleep", "ms": 30}, {"op": "twrite_mode", "ep": 0, "mode": "fail", "at": 1, "err": err},
                  {"op": "sleep", "ms": 50}]
        for w in range(4):
            steps.append(write(1, "MsgAll", t.next(), sync=True))
        steps.append({"op": "quiesce", "ms": 800})
        out.append({"name": "fanout/backlog_then_failed_write_%s" % (err or "plain"), "conf": conf(), "endpoints": customs(2), "steps": steps})
    return out


# --------------------------------------------------------------------------- C12
def fam_close(rng, n):
    out = []
    base_steps = lambda t: [
        feed(0, "valid", t.next()), write(1, "MsgAll", t.next()), feed(0, "valid", t.next()),
        write(2, "FrameAll", t.next()), feed(0, "badck", t.next()), write(1, "MsgTo", t.next(), ep=0),
        feed(0, "valid", t.next()), write(2, "MsgAll", t.next())]
    i = 0
    # Close after every prefix, consumer running or stopped, with and without heartbeat
    for stopped in (False, True):
        t = Tags(40000)
        full = base_steps(t)
        for cut in range(len(full) + 1):
            if n and i >= n:
                break
            steps = opens(1) + full[:cut]
            if stopped:
                steps.append({"op": "consumer", "run": False})
                steps += [feed(0, "valid", t.next()), feed(0, "valid", t.next())]
                steps.append({"op": "sleep", "ms": 3})
            steps.append({"op": "close", "from": "main" if not stopped else "async"})
            steps.append({"op": "wait_closed"})
            out.append({"name": "close/prefix%d/%s" % (cut, "stopped" if stopped else "running"),
                        "conf": conf(hb_disable=False, hb_period_ms=5), "endpoints": customs(1), "steps": steps})
            i += 1
    # parked goroutines
    for point, prep in [("rd.pushOpen", "start"), ("rd.pushEvent", "feed"), ("run.pushClose", "fault"), ("run.closeChannel", "fault"),
                        ("wr.write", "write"), ("hb.send", "hb"), ("prov.newChannel", "start"), ("loop.select", "feed"),
                        ("enq", "write"), ("prov.waitDone", "start")]:
        t = Tags(45000)
        steps = []
        c = conf(hb_disable=(prep != "hb"), hb_period_ms=5)
        ep = -1 if point in ("hb.send", "loop.select") else 0
        if prep == "start":
            steps.append({"op": "hold_at_start", "point": point, "ep": ep})
        else:
            steps += opens(1)
            steps.append({"op": "hold", "point": point, "ep": ep})
        if prep == "feed":
            steps += [feed(0, "valid", t.next()), feed(0, "valid", t.next())]
        if prep == "fault":
            steps.append({"op": "read_err", "ep": 0})
        if prep == "write":
            steps += [write(1, "MsgAll", t.next()), write(2, "MsgAll", t.next())]
        steps.append({"op": "wait_held", "point": point, "ep": ep})
        steps.append({"op": "close", "from": "async"})
        steps.append({"op": "sleep", "ms": 20})
        steps += [write(3, "MsgAll", t.next()), write(3, "FrameAll", t.next())]      # writes racing with the close
        steps.append({"op": "wait_closed"})
        out.append({"name": "close/parked/%s" % point, "conf": c, "endpoints": customs(1), "steps": steps})
    # writer blocked in the transport
    t = Tags(46000)
    out.append({"name": "close/writer_blocked", "conf": conf(), "endpoints": customs(2), "steps": opens(2) + [
        {"op": "twrite_mode", "ep": 0, "mode": "block"}, write(1, "MsgAll", t.next()), write(1, "MsgAll", t.next()),
        {"op": "sleep", "ms": 20}, {"op": "close", "from": "main"}, {"op": "wait_closed"}]})
    # writer blocked in the transport with more items submitted than the queue holds
    t = Tags(46500)
    steps = opens(2) + [{"op": "twrite_mode", "ep": 0, "mode": "block"}]
    for j in range(75):
        steps.append(write(1 + j % 2, "MsgAll", t.next()))
    steps += [{"op": "sleep", "ms": 30}, {"op": "close", "from": "main"}, {"op": "wait_closed"}]
    out.append({"name": "close/writer_blocked_queue_full", "conf": conf(), "endpoints": customs(2), "steps": steps})
    # provider holding a freshly accepted / dialled / opened connection that is not yet registered when Close lands
    for kind in ["tcp_server", "tcp_client", "serial"]:
        steps = [{"op": "hold_at_start", "point": "prov.newChannel", "ep": 0}]
        if kind == "tcp_server":
            steps.append({"op": "peer_connect", "ep": 0, "peer": 1})
        steps += [{"op": "wait_held", "point": "prov.newChannel", "ep": 0}, {"op": "close", "from": "async"}, {"op": "sleep", "ms": 5},
                  {"op": "release", "point": "prov.newChannel", "ep": 0}, {"op": "wait_closed"}]
        out.append({"name": "close/unregistered_connection_%s" % kind, "conf": conf(), "endpoints": [{"kind": kind}], "steps": steps})
    # a node that has been up for more than 30 s (the period of the stream-request cleaner) with no sender known yet,
    # then the first ArduPilot heartbeat, then Close (one long scenario; it runs in parallel with the others)
    t = Tags(46800)
    out.append({"name": "close/after_cleaner_tick", "conf": conf(sr_enable=True), "endpoints": customs(1), "steps": opens(1) + [
        {"op": "sleep", "ms": 31000}, feed(0, "hb", t.next(), sys=3, comp=1, autopilot=3), {"op": "sleep", "ms": 200},
        write(1, "MsgAll", t.next()), {"op": "close", "from": "main"}, {"op": "wait_closed"}]})
    # Close called from inside the event loop
    t = Tags(47000)
    out.append({"name": "close/from_event_loop", "conf": conf(), "endpoints": customs(2), "steps": opens(2) + [
        {"op": "close_on_tag", "tag": 47005}, feed(0, "valid", 47004), feed(0, "valid", 47005), feed(1, "valid", 47006),
        feed(0, "valid", 47007), {"op": "wait_closed"}]})
    # hammering writers across the close
    for w in range(2):
        t = Tags(48000 + 500 * w)
        steps = opens(2)
        for j in range(60):
            steps.append(write(1 + j % 4, rng.choice(KINDS[:1] + KINDS[3:4]), t.next()))
            if j == 30:
                steps.append({"op": "close", "from": "async"})
        steps.append({"op": "wait_closed"})
        out.append({"name": "close/hammer%d" % w, "conf": conf(hb_disable=False, hb_period_ms=3), "endpoints": customs(2), "steps": steps})
    # endpoint kinds
    for kind in ["tcp_server", "udp_server"]:
        t = Tags(49000)
        out.append({"name": "close/%s" % kind, "conf": conf(), "endpoints": [{"kind": kind}, {"kind": "custom"}], "steps": [
            {"op": "peer_connect", "ep": 0, "peer": 1}, feed(0, "valid", t.next(), peer=1), {"op": "wait_open", "ep": 0},
            write(1, "MsgAll", t.next(), sync=True), {"op": "sleep", "ms": 10}, {"op": "close", "from": "main"}, {"op": "wait_closed"}]})
        out.append({"name": "close/%s_idle" % kind, "conf": conf(), "endpoints": [{"kind": kind}], "steps": [
            {"op": "sleep", "ms": 5}, {"op": "close", "from": "main"}, {"op": "wait_closed"}]})
    # many channels open at once (more than any internal queue of the node holds): 150 TCP peers, then Close
    for stopped in (False, True):
        steps = []
        for p in range(1, 151):
            steps.append({"op": "peer_connect", "ep": 0, "peer": p})
        steps.append({"op": "wait_open", "ep": 0, "n": 150})
        steps.append(write(1, "MsgAll", 49700, sync=True))
        if stopped:
            steps.append({"op": "consumer", "run": False})
        steps += [{"op": "sleep", "ms": 20}, {"op": "close", "from": "main"}, {"op": "wait_closed"}]
        out.append({"name": "close/many_peers_%s" % ("stopped" if stopped else "running"), "conf": conf(),
                    "endpoints": [{"kind": "tcp_server"}], "steps": steps})
    # unusual but accepted configuration values with every module switched on: whatever Initialize answers, a failure leaves
    # no listener behind and a success is followed by an ordinary Close
    for j, kw in enumerate([dict(sr_enable=True, sr_freq=65536), dict(sr_enable=True, sr_freq=100000), dict(sr_enable=True, sr_freq=-5),
                            dict(sr_enable=True, sr_freq=65535, hb_disable=False, hb_period_ms=1), dict(hb_disable=False, hb_systype=300, hb_autopilot=-1),
                            dict(sr_enable=True, idle_ms=1, read_ms=1, write_ms=1)]):
        out.append({"name": "close/odd_configuration_%d" % j, "conf": conf(expect_init="any", **kw),
                    "endpoints": [{"kind": "tcp_server"}, {"kind": "udp_server"}, {"kind": "custom"}],
                    "steps": [{"op": "sleep", "ms": 20}, {"op": "close", "from": "main"}, {"op": "wait_closed"}]})
    # a broadcast endpoint whose BroadcastAddress has an odd port part (accepted today: the port is not validated): whatever
    # Initialize answers, nothing stays bound or running after a failure - and after Close
    for j, bp in enumerate(["abc", "", "0", "70000", "-1"]):
        out.append({"name": "close/odd_broadcast_port_%d" % j, "conf": conf(expect_init="any"),
                    "endpoints": [{"kind": "tcp_server"}, {"kind": "udp_broadcast", "bcast_port": bp}, {"kind": "custom"}],
                    "steps": [{"op": "sleep", "ms": 20}, {"op": "close", "from": "main"}, {"op": "wait_closed"}]})
    # Initialize fails at an extra last endpoint (busy port), then it is called again on the same Node value without it
    for stopped in (False, True):
        t = Tags(49600)
        steps = opens(2) + [feed(0, "valid", t.next()), write(1, "MsgAll", t.next(), sync=True), feed(1, "valid", t.next())]
        if stopped:
            steps.append({"op": "consumer", "run": False})
        steps += [{"op": "sleep", "ms": 10}, {"op": "close", "from": "main"}, {"op": "wait_closed"}]
        out.append({"name": "close/initialize_retried_on_the_same_node_%s" % ("stopped" if stopped else "running"),
                    "conf": conf(retry_init=True), "endpoints": customs(2) + [{"kind": "tcp_server"}], "steps": steps})
    # a second life: after Close the same Node value is initialized once more (same addresses) and closed again. Nothing is
    # claimed if the library refuses the second Initialize; if it accepts it, this is a node like any other
    for j, stopped in enumerate((False, True)):
        t = Tags(49700)
        eps = [{"kind": "tcp_server"}, {"kind": "udp_server"}] + ([{"kind": "custom"}] if stopped else [])
        steps = [{"op": "peer_connect", "ep": 0, "peer": 1}, feed(0, "valid", t.next(), peer=1), {"op": "wait_open", "ep": 0, "n": 1},
                 write(1, "MsgAll", t.next(), sync=True), {"op": "quiesce", "ms": 100}]
        if stopped:
            steps.append({"op": "consumer", "run": False})
        steps += [{"op": "close", "from": "main"}, {"op": "wait_closed"}]
        out.append({"name": "close/second_life_of_a_node_value_%s" % ("stopped" if stopped else "running"),
                    "conf": conf(second_life=True), "endpoints": eps, "steps": steps})
    for mode in ["accept", "refuse", "stall"]:
        steps = [{"op": "sleep", "ms": 30}]
        if mode == "refuse":
            steps = [{"op": "sleep", "ms": 150}]
        out.append({"name": "close/tcp_client_%s" % mode, "conf": conf(reconnect_ms=100),
                    "endpoints": [{"kind": "tcp_client", "lmode": mode if mode != "stall" else "accept"}],
                    "steps": steps + [{"op": "close", "from": "main"}, {"op": "wait_closed"}]})
    out.append({"name": "close/udp_broadcast", "conf": conf(), "endpoints": [{"kind": "udp_broadcast"}, {"kind": "custom"}],
                "steps": [{"op": "wait_open", "ep": 0}, feed(0, "valid", 49801, peer=1), write(1, "MsgAll", 49802, sync=True),
                          {"op": "sleep", "ms": 5}, {"op": "close", "from": "main"}, {"op": "wait_closed"}]})
    out.append({"name": "close/udp_client", "conf": conf(), "endpoints": [{"kind": "udp_client"}],
                "steps": [{"op": "wait_open", "ep": 0}, {"op": "close", "from": "main"}, {"op": "wait_closed"}]})
    out.append({"name": "close/serial_backoff", "conf": conf(reconnect_ms=200), "endpoints": [{"kind": "serial", "serial_fails": 50}],
                "steps": [{"op": "sleep", "ms": 50}, {"op": "close", "from": "main"}, {"op": "wait_closed"}]})
    out.append({"name": "close/serial_open", "conf": conf(), "endpoints": [{"kind": "serial"}],
                "steps": [{"op": "wait_open", "ep": 0}, feed(0, "valid", 49900), {"op": "close", "from": "main"}, {"op": "wait_closed"}]})
    # failed initialization leaves nothing behind
    out.append({"name": "close/init_fail_bad_address", "conf": conf(expect_init="fail"),
                "endpoints": [{"kind": "tcp_server"}, {"kind": "udp_server"}, {"kind": "custom"}, {"kind": "bad_address"}], "steps": []})
    out.append({"name": "close/init_fail_busy_port", "conf": conf(expect_init="fail"),
                "endpoints": [{"kind": "tcp_server"}, {"kind": "custom"}, {"kind": "busy_port"}], "steps": []})
    return out if not n else out[:max(n, len(out))]


# --------------------------------------------------------------------------- C13
def fam_stall(rng, positions):
    out = []
    for k in positions:
        # (a) transport of endpoint 0 blocks at its k-th write; 2 healthy endpoints keep receiving everything
        t = Tags(60000 + 300 * k)
        steps = opens(3) + [{"op": "twrite_mode", "ep": 0, "mode": "block", "at": k}]
        for j in range(k + 100):
            steps.append(write(1, "MsgAll", t.next()))
            if j % 10 == 0:
                steps.append(feed(1, "valid", t.next()))
        steps += [{"op": "wait_writes"}, {"op": "quiesce", "ms": 1500}, {"op": "twrite_mode", "ep": 0, "mode": "ok"}, {"op": "quiesce", "ms": 1500}]
        out.append({"name": "stall/block_at_%d" % k, "conf": conf(), "endpoints": customs(3), "steps": steps})
        # (b) transport write fails at the k-th call
        t = Tags(63000 + 300 * k)
        # (a plain error, then errors of the network stack that are not timeouts: no buffer space, a pending ICMP "port
        # unreachable" reported once to the next system call - the transport works again afterwards)
        werr = ["net_error", "conn_refused", "", "net_timeout"][list(positions).index(k) % 4]
        steps = opens(2) + [{"op": "twrite_mode", "ep": 0, "mode": "fail", "at": k, "err": werr}]
        for j in range(k + 3):
            steps.append(write(1, "MsgAll", t.next(), sync=True))
        steps += [{"op": "sleep", "ms": 100}]
        for j in range(5):
            steps.append(write(1, "MsgAll", t.next(), sync=True))
        steps += [{"op": "quiesce", "ms": 1500}]
        out.append({"name": "stall/fail_at_%d_%s" % (k, werr or "plain"), "conf": conf(), "endpoints": customs(2), "steps": steps})
        # (c) the failing write reports that part of the frame was taken (0 < n < len), then the transport works again
        t = Tags(64500 + 300 * k)
        steps = opens(2) + [{"op": "twrite_mode", "ep": 0, "mode": "fail_partial", "at": k}]
        for j in range(k + 3):
            steps.append(write(1, "MsgAll" if j % 2 == 0 else "FrameAll", t.next(), sync=True))
        steps += [{"op": "sleep", "ms": 100}]
        for j in range(5):
            steps.append(write(1, "MsgAll" if j % 2 == 0 else "FrameTo", t.next(), ep=0 if j % 2 else None, sync=True))
        steps += [{"op": "quiesce", "ms": 1500}]
        out.append({"name": "stall/fail_partial_at_%d" % k, "conf": conf(), "endpoints": customs(2), "steps": steps})
    # unencodable items at seeded positions
    for v, bad in [(2, "id_outside"), (1, "v1_big"), (1, "id_outside")]:
        for pos in sorted(set([0, rng.randint(1, 8), rng.randint(9, 30)])):
            t = Tags(66000 + 100 * pos + 1000 * v)
            steps = opens(2)
            for j in range(pos):
                steps.append(write(1, "MsgAll", t.next(), sync=True))
            steps.append(write(1, rng.choice(["MsgAll", "FrameAll"]) if bad == "id_outside" else "MsgAll", t.next(), sync=True, bad=bad))
            steps.append({"op": "sleep", "ms": 100})
            for j in range(5):
                steps.append(write(1, "MsgAll", t.next(), sync=True))
            steps.append({"op": "quiesce", "ms": 1500})
            out.append({"name": "stall/unencodable_%s_v%d_at_%d" % (bad, v, pos), "conf": conf(version=v), "endpoints": customs(2), "steps": steps})
    # a stall long enough for hundreds of items to be discarded at the full queue (400 writes behind a blocked one), then the
    # whole backlog fails when the transport is let go (write deadlines expiring one after the other), then the link works
    # again: later writes reach the wire, or the channel is reported closed
    t = Tags(67000)
    steps = opens(2) + [write(1, "MsgAll", t.next(), sync=True), {"op": "twrite_mode", "ep": 0, "mode": "block", "at": 1}]
    for j in range(400):
        steps.append(write(1, "MsgAll", t.next()))
    steps += [{"op": "wait_writes"}, {"op": "sleep", "ms": 100}, {"op": "twrite_mode", "ep": 0, "mode": "failn", "at": 66, "err": "deadline"},
              {"op": "sleep", "ms": 200}]
    for j in range(20):
        steps.append(write(1, "MsgAll", t.next(), sync=True))
        steps.append({"op": "sleep", "ms": 2})
    steps.append({"op": "quiesce", "ms": 1500})
    out.append({"name": "stall/overflowed_backlog_fails_then_the_link_recovers", "conf": conf(), "endpoints": customs(2), "steps": steps})
    # many consecutive failures (12 and 130 unencodable items / failing transport writes), then valid writes
    for v, kind, nfail in [(2, "id_outside", 12), (1, "v1_big", 12), (2, "failn", 12), (2, "failn", 130), (2, "id_outside", 130)]:
        t = Tags(68000 + 100 * v + (50 if kind == "failn" else 0) + 3 * nfail)
        steps = opens(2) + [write(1, "MsgAll", t.next(), sync=True)]
        if kind == "failn":
            steps.append({"op": "twrite_mode", "ep": 0, "mode": "failn", "at": nfail})
            for j in range(nfail):
                steps.append(write(1, "MsgAll", t.next(), sync=True))
                steps.append({"op": "sleep", "ms": 2})
        else:
            for j in range(nfail):
                steps.append(write(1, "MsgAll", t.next(), sync=True, bad=kind))
        steps.append({"op": "sleep", "ms": 100})
        for j in range(5):
            steps.append(write(1, "MsgAll", t.next(), sync=True))
        steps.append({"op": "quiesce", "ms": 1500})
        out.append({"name": "stall/%d_consecutive_%s_v%d" % (nfail, kind, v), "conf": conf(version=v), "endpoints": customs(2), "steps": steps})
    # failures that go on for longer than the write timeout (300 ms here): 8 failing transport writes / 8 unencodable items
    # 100 ms apart, then the transport works again and valid writes follow
    for kind in ["failn", "id_outside"]:
        t = Tags(68500 + (50 if kind == "failn" else 0))
        steps = opens(2) + [write(1, "MsgAll", t.next(), sync=True)]
        if kind == "failn":
            steps.append({"op": "twrite_mode", "ep": 0, "mode": "failn", "at": 8})
        for j in range(8):
            steps.append(write(1, "MsgAll", t.next(), sync=True, bad="" if kind == "failn" else kind))
            steps.append({"op": "sleep", "ms": 100})
        steps.append({"op": "sleep", "ms": 100})
        for j in range(5):
            steps.append(write(1, "MsgAll", t.next(), sync=True))
            steps.append({"op": "sleep", "ms": 20})
        steps.append({"op": "quiesce", "ms": 1500})
        out.append({"name": "stall/failures_longer_than_write_timeout_%s" % kind, "conf": conf(write_ms=300), "endpoints": customs(2), "steps": steps})
    # no dialect at all: every message write is unencodable for the link
    t = Tags(69000)
    steps = opens(1) + [write(1, "MsgAll", t.next(), sync=True, raw=False, bad="id_outside"), {"op": "sleep", "ms": 100},
                        write(1, "MsgAll", t.next(), sync=True, bad="id_outside"), {"op": "quiesce", "ms": 800}]
    out.append({"name": "stall/no_dialect", "conf": conf(dialect="none"), "endpoints": customs(1), "steps": steps})
    return out


# --------------------------------------------------------------------------- UDP client with a peer / UDP broadcast
def fam_udp(rng, n):
    """One UDP client (the fake server learns the node's socket from its first datagram) or UDP broadcast endpoint
    beside a custom one: datagrams in (valid / wrong checksum / junk), writes of every kind out, then Close."""
    out = []
    for i in range(n):
        t = Tags(95000 + 400 * i)
        kind = ["udp_broadcast", "udp_client"][i % 2]
        steps = opens(2) + [write(1, "MsgAll", t.next(), sync=True)]
        if kind == "udp_client":
            steps.append({"op": "wait_peer", "ep": 0, "peer": 1})
        for j in range(rng.randint(4, 14)):
            r = rng.random()
            if r < 0.55:
                steps.append(feed(0, rng.choice(["valid", "valid", "valid", "badck", "junk"]), t.next(), peer=1))
                steps.append({"op": "sleep", "ms": 2})
            elif r < 0.7:
                steps.append(feed(1, rng.choice(["valid", "badck"]), t.next()))
            else:
                k = rng.choice(KINDS)
                ep = rng.randrange(2)
                steps.append(write(1 + rng.randrange(2), k, t.next(), ep=ep if k.endswith(("To", "Except")) else None, sync=rng.random() < 0.5))
        # one datagram carrying many frames (300..500 bytes): nothing of it may be lost
        steps.append({"op": "feed_pack", "ep": 0, "peer": 1,
                      "items": [{"ep": 0, "item": {"kind": "valid", "tag": t.next()}} for _ in range(rng.randint(15, 23))]})
        steps.append({"op": "sleep", "ms": 5})
        steps.append(feed(0, "valid", t.next(), peer=1))
        steps.append({"op": "quiesce", "ms": 400})
        out.append({"name": "udp/%s/%d" % (kind, i), "conf": conf(version=rng.choice([1, 2])),
                    "endpoints": [{"kind": kind}, {"kind": "custom"}], "steps": steps})
    return out


# --------------------------------------------------------------------------- C14
def fam_faults(rng, thorough=False):
    out = []
    # custom endpoints: read error at the k-th item, repeated
    for reps in ([1, 3] if not thorough else [1, 2, 3, 5]):
        t = Tags(70000 + 100 * reps)
        steps = opens(1)
        for r in range(reps):
            for j in range(rng.randint(0, 3)):
                steps.append(feed(0, "valid", t.next()))
            steps.append({"op": "read_err", "ep": 0, "err": ["", "deadline", "eof", "net_closed", "unexpected_eof"][(r + reps) % 5]})
            steps.append({"op": "wait_close", "ep": 0, "n": r + 1})
            steps.append({"op": "wait_open", "ep": 0, "n": r + 2})
        steps.append(feed(0, "valid", t.next()))
        steps.append({"op": "quiesce", "ms": 500})
        out.append({"name": "faults/custom_x%d" % reps, "conf": conf(), "endpoints": customs(1), "steps": steps})
    # tcp client: refusals, accept-then-close, then a working server; reconnect delay after every failure
    for seq in ([["refuse", "accept"], ["accept_close", "accept"], ["accept", "drop", "accept"]] +
                ([["refuse", "accept_close", "accept", "drop", "accept"]] if thorough else [])):
        t = Tags(72000)
        steps = []
        inst = 0
        first = True
        for mode in seq:
            if mode == "refuse":
                steps.append({"op": "listener_mode", "ep": 0, "mode": "refuse"})
                steps.append({"op": "sleep", "ms": 350})
                steps.append({"op": "listener_mode", "ep": 0, "mode": "accept"})
            elif mode == "accept_close":
                steps.append({"op": "listener_mode", "ep": 0, "mode": "accept_close"})
                steps.append({"op": "sleep", "ms": 350})
                steps.append({"op": "listener_mode", "ep": 0, "mode": "accept"})
                inst += 4          # about one accepted-and-dropped connection per reconnect period
            elif mode == "accept":
                inst += 1
                steps.append({"op": "sleep", "ms": 250})
            elif mode == "drop":
                steps.append({"op": "sleep", "ms": 30})
                steps.append({"op": "read_err", "ep": 0, "peer": -1})
                steps.append({"op": "sleep", "ms": 60})
        steps.append({"op": "sleep", "ms": 50})
        out.append({"name": "faults/tcp_client_%s" % "_".join(seq), "conf": conf(reconnect_ms=100),
                    "endpoints": [{"kind": "tcp_client", "lmode": seq[0] if seq[0] in ("refuse", "accept_close") else "accept"}],
                    "steps": steps})
    # the endpoint is configured with a domain name; the host behind it goes away and the name is pointed to another
    # address (harness DNS on loopback): after the reconnect delay the client connects where the name points NOW
    out.append({"name": "faults/tcp_client_name_repointed", "conf": conf(reconnect_ms=100),
                "endpoints": [{"kind": "tcp_client", "host": "verif-peer.test"}],
                "steps": [{"op": "wait_open", "ep": 0, "n": 1}, {"op": "sleep", "ms": 30}, {"op": "dns_point", "mode": "127.0.0.2"},
                          {"op": "listener_mode", "ep": 0, "mode": "refuse"}, {"op": "read_err", "ep": 0, "peer": -1},
                          {"op": "wait_close", "ep": 0, "n": 1}, {"op": "wait_open", "ep": 0, "n": 2}, {"op": "sleep", "ms": 20},
                          feed(0, "valid", 73901, peer=2), {"op": "quiesce", "ms": 400}]})
    # a name with two addresses, the first of which refuses (nothing listens on 127.0.0.3): the server is reachable under the
    # configured address all the time - connected at once, and again one reconnect delay after a drop, when the name lists a
    # dead address first and the second host (127.0.0.2) after it
    out.append({"name": "faults/tcp_client_name_with_two_addresses_first_refuses", "conf": conf(reconnect_ms=100),
                "endpoints": [{"kind": "tcp_client", "host": "verif-two.test", "dns": "127.0.0.3,127.0.0.1"}],
                "steps": [{"op": "wait_open", "ep": 0, "n": 1}, {"op": "sleep", "ms": 30}, feed(0, "valid", 73951, peer=1),
                          {"op": "dns_point", "mode": "127.0.0.3,127.0.0.2"},
                          {"op": "listener_mode", "ep": 0, "mode": "refuse"}, {"op": "read_err", "ep": 0, "peer": -1},
                          {"op": "wait_close", "ep": 0, "n": 1}, {"op": "wait_open", "ep": 0, "n": 2}, {"op": "sleep", "ms": 20},
                          feed(0, "valid", 73952, peer=2), {"op": "quiesce", "ms": 400}]})
    # a long outage: connection attempts keep failing for several times the dial timeout, then the server comes back
    for rd in ([300] if not thorough else [200, 300, 500]):
        out.append({"name": "faults/tcp_client_long_outage_%d" % rd, "conf": conf(reconnect_ms=100, read_ms=rd),
                    "endpoints": [{"kind": "tcp_client", "lmode": "refuse"}],
                    "steps": [{"op": "sleep", "ms": 3 * rd}, {"op": "listener_mode", "ep": 0, "mode": "accept"},
                              {"op": "wait_open", "ep": 0, "n": 1}, {"op": "sleep", "ms": 30},
                              {"op": "read_err", "ep": 0, "peer": -1}, {"op": "wait_close", "ep": 0, "n": 1},
                              {"op": "listener_mode", "ep": 0, "mode": "refuse"}, {"op": "sleep", "ms": 3 * rd},
                              {"op": "listener_mode", "ep": 0, "mode": "accept"}, {"op": "wait_open", "ep": 0, "n": 2}]})
    # connection attempts that time out (the server never answers the SYN) for several dial timeouts, then the server returns
    out.append({"name": "faults/tcp_client_dial_timeouts", "conf": conf(reconnect_ms=50, read_ms=100),
                "endpoints": [{"kind": "tcp_client", "lmode": "hang"}],
                "steps": [{"op": "sleep", "ms": 1200}, {"op": "listener_mode", "ep": 0, "mode": "accept"},
                          {"op": "wait_open", "ep": 0, "n": 1}, {"op": "sleep", "ms": 30},
                          {"op": "read_err", "ep": 0, "peer": -1}, {"op": "wait_close", "ep": 0, "n": 1},
                          {"op": "listener_mode", "ep": 0, "mode": "hang"}, {"op": "sleep", "ms": 1200},
                          {"op": "listener_mode", "ep": 0, "mode": "accept"}, {"op": "wait_open", "ep": 0, "n": 2}]})
    # serial: the opener fails n times, then works; then the device fails and reopens
    for fails in ([0, 2] if not thorough else [0, 1, 2, 4]):
        t = Tags(74000)
        steps = [{"op": "wait_open", "ep": 0, "n": 1}, feed(0, "valid", t.next()), {"op": "read_err", "ep": 0},
                 {"op": "wait_close", "ep": 0, "n": 1}, {"op": "wait_open", "ep": 0, "n": 2}, feed(0, "valid", t.next()),
                 {"op": "quiesce", "ms": 400}]
        out.append({"name": "faults/serial_fails%d" % fails, "conf": conf(reconnect_ms=100),
                    "endpoints": [{"kind": "serial", "serial_fails": fails}], "steps": steps})
    # clients: the first connection stays silent and is closed after the idle timeout, the endpoint re-opens after the
    # reconnect delay, the second connection is fed every idle/3 for 4.5 x idle and must stay open
    for kind in ["tcp_client", "udp_client"]:
        t = Tags(75000)
        idle = 300
        steps = [{"op": "wait_open", "ep": 0, "n": 1}]
        if kind == "udp_client":
            steps += [write(1, "MsgAll", t.next(), sync=True), {"op": "wait_peer", "ep": 0, "peer": 1}]
        steps += [{"op": "wait_close", "ep": 0, "n": 1}, {"op": "wait_open", "ep": 0, "n": 2}]
        if kind == "udp_client":
            steps += [write(1, "MsgAll", t.next(), sync=True), {"op": "wait_peer", "ep": 0, "peer": 2}]
        else:
            steps.append({"op": "sleep", "ms": 20})
        for j in range(14):
            steps.append(feed(0, "valid", t.next(), peer=2))
            steps.append({"op": "sleep", "ms": idle // 3})
        steps.append({"op": "quiesce", "ms": 150})
        out.append({"name": "faults/idle_%s" % kind, "conf": conf(idle_ms=idle, reconnect_ms=100, idle_silent=[[0, 1]], idle_active=[[0, 2]]),
                    "endpoints": [{"kind": kind}], "steps": steps})
    # a connection that never stops receiving while the application stalls for one and a half idle timeouts (events are not
    # taken, the reader waits to hand one over): the next read's deadline is armed afresh, the channel stays
    for kind in ["tcp_server", "udp_server", "tcp_client"]:
        t = Tags(77000)
        idle = 300
        steps = []
        if kind == "tcp_client":
            steps += [{"op": "wait_open", "ep": 0, "n": 1}, {"op": "sleep", "ms": 20}]
        else:
            steps += [{"op": "peer_connect", "ep": 0, "peer": 1}, feed(0, "valid", t.next(), peer=1), {"op": "wait_open", "ep": 0, "n": 1}]
        for j in range(24):
            steps.append(feed(0, "valid", t.next(), peer=1))
            steps.append({"op": "sleep", "ms": idle // 4})
            if j == 1:      # early: a close caused by the stall would come long before 4 idle timeouts have passed
                steps.append({"op": "consumer", "run": False})
            if j == 7:
                steps.append({"op": "consumer", "run": True})
        steps.append({"op": "quiesce", "ms": 150})
        out.append({"name": "faults/active_with_stalled_consumer_%s" % kind,
                    "conf": conf(idle_ms=idle, reconnect_ms=100, idle_active=[[0, 1]]), "endpoints": [{"kind": kind}], "steps": steps})
    # a peer that keeps sending (one frame every 100 ms) but never reads, while the application writes far more than the
    # socket buffers take for 2.5 s: writes time out (300 ms) one after the other, which is the writer's business - the
    # channel keeps receiving and is not closed
    t = Tags(77500)
    steps = [{"op": "peer_connect", "ep": 0, "peer": 1, "noread": True}, feed(0, "valid", t.next(), peer=1), {"op": "wait_open", "ep": 0, "n": 1},
             {"op": "flood", "g": 1, "ms": 2500}]
    for j in range(40):
        steps.append(feed(0, "valid", t.next(), peer=1))
        steps.append({"op": "sleep", "ms": 100})
    steps.append({"op": "quiesce", "ms": 150})
    out.append({"name": "faults/active_peer_that_never_reads_tcp_server",
                "conf": conf(idle_ms=1000, write_ms=300, reconnect_ms=100, idle_active=[[0, 1]]), "endpoints": [{"kind": "tcp_server"}], "steps": steps})
    # server: every peer its own channel, keeps accepting after faults (see fam_events_server), idle expiry
    for kind in ["tcp_server", "udp_server"]:
        t = Tags(76000)
        idle = 300
        steps = [{"op": "peer_connect", "ep": 0, "peer": 1}, feed(0, "valid", t.next(), peer=1), {"op": "wait_open", "ep": 0, "n": 1},
                 {"op": "peer_connect", "ep": 0, "peer": 2}, feed(0, "valid", t.next(), peer=2), {"op": "wait_open", "ep": 0, "n": 2}]
        # peer 1 stays silent, peer 2 is fed every idle/3 for 4.5 x idle
        for j in range(14):
            steps.append({"op": "sleep", "ms": idle // 3})
            steps.append(feed(0, "valid", t.next(), peer=2))
        steps.append({"op": "wait_close", "ep": 0, "n": 1})
        out.append({"name": "faults/idle_%s" % kind, "conf": conf(idle_ms=idle, idle_silent=[[0, 1]], idle_active=[[0, 2]]),
                    "endpoints": [{"kind": kind}], "steps": steps})
    # a silent peer while the node itself keeps writing to it (a message every idle/3 for 4.5 s, far beyond the upper tolerance of
    # the expiry clause): what the node sends is not something it received - the connection is closed after the idle timeout
    # all the same; a second, active peer (server) stays
    for kind in ["tcp_server", "tcp_client"]:
        t = Tags(76500)
        idle = 300
        if kind == "tcp_server":
            steps = [{"op": "peer_connect", "ep": 0, "peer": 1}, feed(0, "valid", t.next(), peer=1), {"op": "wait_open", "ep": 0, "n": 1},
                     {"op": "peer_connect", "ep": 0, "peer": 2}, feed(0, "valid", t.next(), peer=2), {"op": "wait_open", "ep": 0, "n": 2}]
        else:
            steps = [{"op": "wait_open", "ep": 0, "n": 1}]
        for j in range(45):
            steps.append(write(1, "MsgAll", t.next()))
            steps.append({"op": "sleep", "ms": idle // 3})
            if kind == "tcp_server" and j < 14:
                steps.append(feed(0, "valid", t.next(), peer=2))
        steps.append({"op": "wait_close", "ep": 0, "n": 1})
        out.append({"name": "faults/idle_while_the_node_keeps_writing_%s" % kind,
                    "conf": conf(idle_ms=idle, reconnect_ms=100, idle_silent=[[0, 1]], idle_active=[[0, 2]] if kind == "tcp_server" else []),
                    "endpoints": [{"kind": kind}], "steps": steps})
    return out


# --------------------------------------------------------------------------- C16
def fam_auto(rng, n, thorough=False):
    out = []
    i = 0
    # heartbeats: configurations
    for dialect, disable in [("common", False), ("common", True), ("none", False), ("nohb", False), ("fakehb", False), ("no66", False),
                             ("common_rev", False)]:
        for period in ([20] if not thorough else [20, 50]):
            k = rng.randint(1, 3)
            c = conf(dialect=dialect, hb_disable=disable, hb_period_ms=period, hb_systype=rng.choice([0, 2, 13]),
                     hb_autopilot=rng.choice([0, 3, 12]), skip_hb_rate=False, comp=rng.choice([0, 5]), version=rng.choice([1, 2]))
            steps = opens(k) + [{"op": "sleep", "ms": period * 12}]
            out.append({"name": "auto/hb_%s_%s_%d" % (dialect, "off" if disable else "on", period), "conf": c, "endpoints": customs(k), "steps": steps})
    # a dialect whose version is 0 (the last byte of the heartbeat payload is then zero), both protocol versions
    for ver in (1, 2):
        out.append({"name": "auto/hb_dialect_version_0_v%d" % ver,
                    "conf": conf(dialect="common_v0", hb_disable=False, hb_period_ms=20, skip_hb_rate=False, version=ver, sr_enable=True),
                    "endpoints": customs(2), "steps": opens(2) + [feed(0, "hb", 88801, sys=2, comp=1, autopilot=3), {"op": "sleep", "ms": 240}]})
    # spacing: a long period (500 ms) on two channels for 6.5 s - every gap is judged, not only the count
    out.append({"name": "auto/hb_spacing_500", "conf": conf(hb_disable=False, hb_period_ms=500, skip_hb_rate=False, hb_systype=2),
                "endpoints": customs(2), "steps": opens(2) + [{"op": "sleep", "ms": 6500}]})
    # "not repeated for that sender within 30 seconds" across the 30 s cleaner tick: a sender first seen at node age 25 s
    # keeps sending one heartbeat per second for 13 s (one long scenario; it runs in parallel with the others)
    t = Tags(89000)
    steps = opens(1) + [{"op": "sleep", "ms": 25000}]
    for h in range(13):
        steps.append(feed(0, "hb", t.next(), sys=2, comp=1, autopilot=3))
        steps.append({"op": "sleep", "ms": 1000})
    steps.append({"op": "quiesce", "ms": 1000})
    out.append({"name": "auto/sr_across_cleaner_tick", "conf": conf(sr_enable=True), "endpoints": customs(1), "steps": steps})
    # the same (system, component) behind two channels of ONE endpoint (two peers of a server, equal ids - two vehicles with
    # factory settings, or a vehicle that connects a second time): each channel's first ArduPilot heartbeat is a first one
    # (judged on the stream-requested events, which carry the channel); a second heartbeat on either triggers nothing
    for kind in ["tcp_server", "udp_server"]:
        t = Tags(89300)
        steps = [{"op": "peer_connect", "ep": 0, "peer": 1}, feed(0, "hb", t.next(), peer=1, sys=2, comp=1, autopilot=3),
                 {"op": "wait_open", "ep": 0, "n": 1}, {"op": "sleep", "ms": 150},
                 {"op": "peer_connect", "ep": 0, "peer": 2}, feed(0, "hb", t.next(), peer=2, sys=2, comp=1, autopilot=3),
                 {"op": "wait_open", "ep": 0, "n": 2}, {"op": "sleep", "ms": 150},
                 feed(0, "hb", t.next(), peer=1, sys=2, comp=1, autopilot=3), feed(0, "hb", t.next(), peer=2, sys=2, comp=1, autopilot=3),
                 feed(0, "hb", t.next(), peer=2, sys=3, comp=1, autopilot=3), {"op": "quiesce", "ms": 600}]
        out.append({"name": "auto/sr_same_ids_on_two_channels_of_a_%s" % kind, "conf": conf(sr_enable=True), "endpoints": [{"kind": kind}],
                    "steps": steps})
    # renewal: "not repeated within 30 seconds" from both sides - senders A and B on one channel over 63 s; a burst is due
    # for A at 0.1, 31.5 and 62.5 s, for B at 20 and 52 s, and for none of A at 10 / 25 / 45 s, B at 33 s (one long scenario)
    t = Tags(89500)
    steps = opens(1)
    at = 0
    # sender C (system 4): 1 s, then silent until 59 s (due again), then 61.5 s (not due: 2.5 s after its last burst)
    for (sec, sysid) in [(0.1, 2), (1, 4), (10, 2), (20, 3), (25, 2), (31.5, 2), (33, 3), (45, 2), (52, 3), (59, 4), (61.5, 4), (62.5, 2)]:
        steps.append({"op": "sleep", "ms": int(sec * 1000) - at})
        at = int(sec * 1000)
        steps.append(feed(0, "hb", t.next(), sys=sysid, comp=1, autopilot=3))
    steps.append({"op": "quiesce", "ms": 800})
    out.append({"name": "auto/sr_renewal", "conf": conf(sr_enable=True), "endpoints": customs(1), "steps": steps})
    # many sources: 1100 distinct (system, component) senders on one channel within a few seconds (more than any table
    # bound of the node), then the first sender again: no second burst for it
    t = Tags(89800)
    items = [{"ep": 0, "item": {"kind": "hb", "tag": t.next(), "sys": 1 + s % 250, "comp": 2 + s // 250, "autopilot": 3}} for s in range(1100)]
    # 8 senders (56 requests) at a time, then the wire is given time to drain: the channel's queue holds 64 items and a
    # burst beyond it is allowed to lose requests (C13)
    steps = opens(1) + [feed(0, "hb", t.next(), sys=1, comp=1, autopilot=3), {"op": "sleep", "ms": 50}]
    for c0 in range(0, len(items), 8):
        steps += [{"op": "burst", "items": items[c0:c0 + 8]}, {"op": "quiesce", "ms": 2000}]
    steps += [{"op": "quiesce", "ms": 1500}, feed(0, "hb", t.next(), sys=1, comp=1, autopilot=3), {"op": "sleep", "ms": 100},
                        feed(0, "hb", t.next(), sys=7, comp=3, autopilot=3), {"op": "quiesce", "ms": 800}]
    out.append({"name": "auto/sr_many_senders", "conf": conf(sr_enable=True), "endpoints": customs(1), "steps": steps})
    # the cleaner and the readers meet: 4 channels x 450 senders heard at 0.3 s are all heard again in one dense burst that
    # starts 40 ms before the cleaner's tick at 60 s and lasts for about 100 ms (their entries are then 59.7 s old: the burst is due, and the cleaner
    # finds them expired), and once more at 62 s, which must trigger nothing. The wire is muted (1800 x 7 requests at once
    # may overflow the queues): judged on the stream-requested events - 2 per sender, never 3
    t = Tags(97000)
    per = 450
    senders = [(ep, 1 + (ep * per + i) // 250, 1 + (ep * per + i) % 250) for ep in range(4) for i in range(per)]
    steps = opens(4)
    for at in (300, 59960, 62000):
        steps.append({"op": "burst", "at_ms": at,
                      "items": [{"ep": ep, "item": {"kind": "hb", "tag": t.next(), "sys": sy, "comp": co, "autopilot": 3}} for ep, sy, co in senders]})
        steps.append({"op": "quiesce", "ms": 500})
    out.append({"name": "auto/sr_due_heartbeats_across_a_cleaner_tick", "conf": conf(sr_enable=True, mute_wire=True, sr_events_only=True),
                "endpoints": customs(4), "steps": steps})
    # more senders than one channel can have: 65025 (every system / component pair, part of the environment: muted) on channel
    # 0, then 700 on channel 1 - each of those is new to the node and gets its requests and its event (wire muted)
    t = Tags(99000)
    bulk = [{"ep": 0, "item": {"kind": "hb", "tag": 1, "sys": 1 + i // 255, "comp": 1 + i % 255, "autopilot": 3, "mute": True}} for i in range(255 * 255)]
    steps = opens(2) + [{"op": "burst", "items": bulk}, {"op": "quiesce", "ms": 3000}]
    tracked = [(1, 1 + i // 250, 1 + i % 250) for i in range(700)]
    for c0 in range(0, len(tracked), 100):
        steps.append({"op": "burst", "items": [{"ep": ep, "item": {"kind": "hb", "tag": t.next(), "sys": sy, "comp": co, "autopilot": 3}} for ep, sy, co in tracked[c0:c0 + 100]]})
        steps.append({"op": "quiesce", "ms": 1000})
    out.append({"name": "auto/sr_more_senders_than_one_channel_can_have", "conf": conf(sr_enable=True, mute_wire=True, sr_events_only=True),
                "endpoints": customs(2), "steps": steps})
    # stream requests: histories of heartbeats from many sources interleaved with other traffic
    for j in range(n):
        t = Tags(90000 + 1000 * j)
        k = rng.randint(1, 3)
        dialect = rng.choice(["common", "common_rev", "common_sr_first", "no66", "nohb"])
        enable = rng.random() < 0.8
        c = conf(dialect=dialect, sr_enable=enable, sr_freq=rng.choice([0, 1, 50]))
        steps = opens(k)
        for h in range(rng.randint(4, 20)):
            ep = rng.randrange(k)
            if rng.random() < 0.7:
                steps.append(feed(ep, "hb", t.next(), sys=rng.choice([1, 2]), comp=rng.choice([1, 2]), autopilot=rng.choice([3, 3, 0, 12])))
            else:
                steps.append(feed(ep, "valid", t.next()))
            if rng.random() < 0.2:
                steps.append(write(1, "MsgAll", t.next()))
        steps.append({"op": "quiesce", "ms": 1500})
        out.append({"name": "auto/sr_%s_%s_%d" % (dialect, "on" if enable else "off", j), "conf": c, "endpoints": customs(k), "steps": steps})
    return out


# --------------------------------------------------------------------------- C09 / C06 node links
def fam_links(rng, thorough=False):
    out = []
    for ver, keyed in [(1, False), (2, False), (2, True)]:
        t = Tags(110000 + 1000 * ver + (500 if keyed else 0))
        c = conf(version=ver, outkey=KEY if keyed else [], sys=rng.choice([1, 200]), comp=rng.choice([0, 9]), hb_disable=False,
                 hb_period_ms=5, sr_enable=True, skip_hb_rate=True)
        steps = opens(3)
        nw = 40 if keyed else (300 if not thorough else 700)
        for j in range(nw):
            steps.append(write(1 + j % 2, rng.choice(["MsgAll", "MsgAll", "MsgTo", "MsgExcept"]), t.next(), ep=rng.randrange(3)))
            if j % 25 == 3:
                steps.append(feed(rng.randrange(3), "hb", t.next(), sys=1 + j % 3, comp=1, autopilot=3))
            if j % 40 == 7:
                steps.append(write(1, "MsgAll", t.next(), bad="id_outside"))
        steps += [{"op": "wait_writes"}, {"op": "quiesce", "ms": 1500}]
        out.append({"name": "links/v%d_%s" % (ver, "keyed" if keyed else "plain"), "conf": c, "endpoints": customs(3), "steps": steps})
    # heartbeats, stream requests and application messages of a node whose dialect has version 0 (the heartbeat's last
    # payload byte is then zero: v1 must not truncate it), both protocol versions
    for ver in (1, 2):
        t = Tags(117000 + 100 * ver)
        steps = opens(2) + [feed(0, "hb", t.next(), sys=2, comp=1, autopilot=3)]
        for j in range(6):
            steps.append(write(1, "MsgAll", t.next(), sync=True))
            steps.append({"op": "sleep", "ms": 30})
        steps.append({"op": "quiesce", "ms": 400})
        out.append({"name": "links/dialect_version_0_v%d" % ver,
                    "conf": conf(dialect="common_v0", hb_disable=False, hb_period_ms=20, version=ver, sr_enable=True),
                    "endpoints": customs(2), "steps": steps})
    # a serial port (and a custom transport) whose write stalls for longer than the write timeout and then completes, with
    # more writes queued behind it: every frame still goes out once, whole, with gapless sequence numbers
    for kind in ["serial", "custom"]:
        t = Tags(118000 + (500 if kind == "custom" else 0))
        steps = [{"op": "wait_open", "ep": 0, "n": 1}, write(1, "MsgAll", t.next(), sync=True), write(1, "MsgAll", t.next(), sync=True),
                 {"op": "sleep", "ms": 20}, {"op": "twrite_mode", "ep": 0, "mode": "block"}]
        for j in range(3):
            steps.append(write(1, "MsgAll", t.next()))
        steps += [{"op": "sleep", "ms": 700}]
        for j in range(3):
            steps.append(write(1, "MsgAll", t.next()))
        steps += [{"op": "sleep", "ms": 100}, {"op": "twrite_mode", "ep": 0, "mode": "ok"}, {"op": "wait_writes"}]
        for j in range(3):
            steps.append(write(1, "MsgAll", t.next(), sync=True))
        steps.append({"op": "quiesce", "ms": 800})
        out.append({"name": "links/%s_write_stalls_longer_than_write_timeout" % kind, "conf": conf(write_ms=200, reconnect_ms=100),
                    "endpoints": [{"kind": kind}], "steps": steps})
    # configurations refused / accepted at initialization
    for ver in [0, 1, 2]:
        for sys in [0, 1, 255]:
            for keyed in [False, True]:
                bad = ver == 0 or sys == 0 or (keyed and ver == 1)
                out.append({"name": "links/init_v%d_sys%d_%s" % (ver, sys, "key" if keyed else "nokey"),
                            "conf": conf(version=ver, sys=sys, outkey=KEY if keyed else [], comp=rng.choice([0, 1, 7]),
                                         expect_init="fail" if bad else ""),
                            "endpoints": customs(1), "steps": [] if bad else opens(1)})
    return out


# --------------------------------------------------------------------------- C15
def fam_race(rng, n):
    """Concurrency-heavy scenarios for the race detector: heartbeats from new senders on several channels at once with
    stream requests on; channels closing and re-opening while other goroutines write to a stable channel."""
    out = []
    for i in range(n):
        t = Tags(300000 + 2000 * i)
        k = 4
        steps = opens(k)
        for j in range(12):
            items = []
            for r in range(8):
                for ep in range(k):
                    items.append({"ep": ep, "item": {"kind": "hb", "tag": t.next(), "sys": 1 + (j * 8 + r + ep) % 60,
                                                     "comp": 1 + (r + j) % 3, "autopilot": 3}})
            steps.append({"op": "burst", "items": items})
            # the same (truncated) message type decoded on all channels at once
            steps.append({"op": "burst", "items": [{"ep": ep, "item": {"kind": "valid", "tag": t.next()}}
                                                   for r2 in range(6) for ep in range(k)]})
            if j % 3 == 0:
                steps.append(write(1 + j % 3, rng.choice(KINDS), t.next(), ep=rng.randrange(k)))
        steps += [{"op": "wait_writes"}, {"op": "quiesce", "ms": 1500}]
        out.append({"name": "race/stream_requests/%d" % i, "conf": conf(sr_enable=True, hb_disable=False, hb_period_ms=3),
                    "endpoints": customs(k), "steps": steps})
        t = Tags(301000 + 2000 * i)
        steps = opens(3)
        for j in range(30):
            for w in range(4):
                steps.append(write(1 + w, rng.choice(["MsgTo", "FrameTo", "MsgExcept", "MsgAll"]), t.next(), ep=0))
            steps.append({"op": "read_err", "ep": 1 + j % 2})
            if j % 3 == 0:
                steps.append(feed(0, "valid", t.next()))
            if j % 7 == 6:
                steps.append({"op": "sleep", "ms": 2})
        steps += [{"op": "wait_writes"}, {"op": "quiesce", "ms": 1500}]
        out.append({"name": "race/channel_churn/%d" % i, "conf": conf(hb_disable=False, hb_period_ms=3), "endpoints": customs(3), "steps": steps})
    # stream requests renewed after their 30 s period: known senders on three channels send again, concurrently, at node age
    # 30.5 s (after the period, before the cleaner's second tick) and at 61 s (one long scenario, runs beside the others)
    t = Tags(390000)
    k = 3
    hbs = lambda: [{"ep": ep, "item": {"kind": "hb", "tag": t.next(), "sys": 1 + (r + ep) % 4, "comp": 1, "autopilot": 3}}
                   for r in range(8) for ep in range(k)]
    steps = opens(k) + [{"op": "burst", "items": hbs()}, {"op": "sleep", "ms": 30500}, {"op": "burst", "items": hbs()},
                        {"op": "burst", "items": hbs()}, {"op": "sleep", "ms": 400}, {"op": "burst", "items": hbs()},
                        {"op": "quiesce", "ms": 800}]
    out.append({"name": "race/sr_renewal", "conf": conf(sr_enable=True), "endpoints": customs(k), "steps": steps})
    # one received frame forwarded to channel after channel, and a constant beacon frame written again and again, without
    # waiting for the wires (the same, already encoded, frame object goes through WriteFrameTo / WriteFrameAll many times; the application itself
    # does not touch the frame any more)
    out.append({"name": "race/same_frame_written_many_times", "conf": conf(), "endpoints": customs(3),
                "steps": opens(3) + [{"op": "beacon", "tag": 396001, "n": 400}, {"op": "quiesce", "ms": 500}]})
    # the cleaner's second tick (60 s) finds an entry to remove (a vehicle heard once, then silent) while another channel
    # keeps looking senders up: one vehicle on channel 0 at the start, another on channel 1 at 10 Hz for 62 s
    t = Tags(395000)
    steps = opens(2) + [feed(0, "hb", t.next(), sys=1, comp=1, autopilot=3)]
    for j in range(620):
        steps.append({"op": "burst", "items": [{"ep": 1, "item": {"kind": "hb", "tag": t.next(), "sys": 2, "comp": 1, "autopilot": 3}}]})
        steps.append({"op": "sleep", "ms": 100})
    steps.append({"op": "quiesce", "ms": 500})
    out.append({"name": "race/sr_cleaner_removes_a_silent_sender", "conf": conf(sr_enable=True), "endpoints": customs(2), "steps": steps})
    return out


# --------------------------------------------------------------------------- deprecated constructor
def _legacy_some(fam, every=3):
    """Every `every`-th scenario of a family builds its node with the deprecated NewNode(NodeConf) instead of
    Node.Initialize (not where a goroutine is held from the start: the hooks cannot name the node yet)."""
    def wrapped(*a, **kw):
        out = fam(*a, **kw)
        for i, sc in enumerate(out):
            if i % every == every - 1 and not sc["conf"].get("retry_init") and not sc["conf"].get("second_life") and not any(s["op"] == "hold_at_start" for s in sc["steps"]):
                sc["conf"] = dict(sc["conf"], legacy_ctor=True)
        return out
    wrapped.__doc__ = fam.__doc__
    return wrapped


fam_events = _legacy_some(fam_events)
fam_fanout = _legacy_some(fam_fanout)
fam_auto = _legacy_some(fam_auto)
fam_close = _legacy_some(fam_close, 4)
fam_udp = _legacy_some(fam_udp)
fam_faults = _legacy_some(fam_faults, 4)
