"""C12 - Close always terminates and releases everything."""
import random

import scenarios
from checks import _node

PROP = "C12"
LEVEL = "model_checking"


def run(ctx):
    ctx.build_mvh()
    rng = random.Random(ctx.seed)
    scs = scenarios.fam_close(rng, 0)
    if ctx.thorough():
        for rep in range(12):
            scs += scenarios.fam_close(random.Random(ctx.seed * 100 + rep), 0)
        scs += scenarios.fam_events(rng, 200, True)
    _node.run_family(ctx, scs, ["C12."], family="close", rule=(
        "Close placed after every prefix of a scripted scenario with the consumer running or stopped, with goroutines parked by gate "
        "hooks (reader before its open event / on an undelivered event, channel before its close event, writer in the transport, "
        "heartbeat mid-send, provider before registering a channel, node loop, enqueue), Close from inside the event loop, writers "
        "hammering across the close, TCP/UDP server and client, serial (fake opener) in back-off and open, failed initialization "
        "(bad address, busy port); each scenario in its own process; final facts: goroutine dump, ports re-bound, Close count of "
        "custom transports, Events() closed; distinct = scenario shapes"))
    ctx.assumptions += ["goroutines are counted by stack frames of gomavlib / pion packages, polled up to 2 s",
                        "gates are released 150 ms after Close is invoked (a gate only delays a goroutine)"]
