"""C06 - link signing: only validly signed frames pass; writers sign correctly."""
import vf
from checks import _stream, _writer

PROP = "C06"
LEVEL = "model_checking"

READER = {"no_panic", "frame_matches_consumed_bytes", "signature_gate", "valid_frame_delivered", "result_kind",
          "independent_of_chunking"}
WRITER = {"no_panic", "signed_iff_key", "link_id", "signature", "one_whole_frame", "timestamp_monotone", "valid_write_accepted"}


def run(ctx):
    ctx.build_mvh()
    # spec-computed signed frames (SHA-256 in TLA+; FIPS vectors asserted when the module loads)
    rc, out = ctx.tlc("Gen_Signed", env={"MODE": "sig", "VSEED": ctx.seed}, tag="gen:signed", timeout=900)
    nvec = _stream.parse_vec_lines(out, ctx.path("sigvec.ndjson"))
    if nvec == 0:
        raise vf.Inconclusive("Gen_Signed produced no vectors:\n" + vf.tail(out, 30))
    tr = ctx.path("c06r.ndjson")
    ctx.run_mvh(["c06r", "-vectors", ctx.path("sigvec.ndjson"), "-out", tr, "-seed", ctx.seed, "-tier", ctx.tier])
    recs = _stream.validate_streams(ctx, tr, clause_filter=lambda c: c in READER)
    tags = {}
    for r in recs:
        tags[r["tag"]] = tags.get(r["tag"], 0) + 1
        ctx.distinct.add((r["tag"], len(r["in"]), tuple(x["k"] for x in r["results"])[:3]))
    # a reader with a key AND a dialect: spec-signed frames of dialect messages (canonical / trailing zeros kept / bytes beyond
    # the known fields / unknown id) must be delivered, frames lengthened after signing must not
    defs = ctx.path("defs.json")
    ctx.run_mvh(["defs", "-out", defs])
    rc, out = ctx.tlc("Gen_SignedDl", env={"DEFS": defs, "DIALECT": defs + ".allplus.json", "VSEED": ctx.seed}, tag="gen:signed_dl", timeout=900)
    nvd = _stream.parse_vec_lines(out, ctx.path("sigdlvec.ndjson"))
    if nvd < 20:
        raise vf.Inconclusive("Gen_SignedDl produced %d vectors:\n%s" % (nvd, vf.tail(out, 30)))
    trd = ctx.path("c06d.ndjson")
    ctx.run_mvh(["c06d", "-aux", "c06", "-vectors", ctx.path("sigdlvec.ndjson"), "-out", trd, "-seed", ctx.seed, "-tier", ctx.tier])
    drecs = _stream.validate_streams(ctx, trd, defs=defs, clause_filter=lambda c: c in READER)
    for r in drecs:
        tags[r["tag"]] = tags.get(r["tag"], 0) + 1
        ctx.distinct.add((r["tag"], len(r["in"]), tuple(x["k"] for x in r["results"])[:3]))
    recs = recs + drecs
    # re-keying and re-stamping at a node: a received signed frame (signed under another key), edited or not, then
    # Node.FixFrame under the node's outgoing key: the result carries a signature that verifies under THAT key
    import json
    mod = 8 if ctx.thorough() else 40
    rc, out = ctx.tlc("Gen_Route", env={"DEFS": defs, "DIALECT": defs + ".all.json", "VECMOD": mod, "VECOFF": ctx.seed % mod},
                      tag="gen:route", timeout=1800)
    if _stream.parse_vec_lines(out, ctx.path("routevec.ndjson")) == 0:
        raise vf.Inconclusive("Gen_Route produced no vectors:\n" + vf.tail(out, 30))
    trr = ctx.path("route.ndjson")
    ctx.run_mvh(["route", "-vectors", ctx.path("routevec.ndjson"), "-out", trr, "-seed", ctx.seed, "-tier", ctx.tier])
    fixes = [r for r in vf.read_ndjson(trr) if r["e"] == "FIX" and r["var"].startswith("signed") and r["key"]]
    if not fixes:
        raise vf.Inconclusive("no re-keying record was produced")
    pfix = ctx.path("c06fix.ndjson")
    with open(pfix, "w") as f:
        for r in fixes:
            f.write(json.dumps(r) + "\n")
    for (_, rejects, walked, _) in ctx.validate("Trace_Reader", [pfix], env={"DEFS": defs}):
        for (line, seq, kind, clauses, _) in rejects:
            mine = [c for c in clauses if c in ("signature_valid_under_out_key", "accepted_at_next_hop", "no_panic")]
            if any(c.startswith("H_") for c in clauses) and not ctx.findings:
                raise vf.Inconclusive("harness sanity clause failed: %s" % clauses)
            if mine:
                r = fixes[line - 1]
                ctx.finding("FIX:%s:edit=%s" % ("+".join(sorted(mine)), r["edit"]), "re-keyed frame (edit %s) rejected by %s" % (r["edit"], mine), r)
    ctx.cov["rekeyed_frames"] = len(fixes)
    # writer side
    trw = ctx.path("c06w.ndjson")
    ctx.run_mvh(["wlink", "-aux", "c06", "-out", trw, "-seed", ctx.seed, "-tier", ctx.tier])
    wrecs, frames = _writer.validate_links(ctx, trw, defs, clause_filter=lambda c: c in WRITER)
    # node links with an outgoing key (application messages, heartbeats, stream requests on three channels)
    import random
    import scenarios
    from checks import _node
    scs = [sc for sc in scenarios.fam_links(random.Random(ctx.seed), ctx.thorough()) if sc["name"] == "links/v2_keyed"]
    runs = _node.play(ctx, scs)
    st = _node.validate(ctx, runs, defs, ["C06."])
    ctx.cov["node_keyed_link_events"] = st["events"]
    ctx.sample(recs[0])
    ctx.sample({"cfg": wrecs[0]["cfg"], "impl": wrecs[0]["impl"], "first_write": wrecs[0]["writes"][0]})
    ctx.cov["traces_validated_against_impl"] = len(recs) + len(wrecs) + st["scenarios"]
    ctx.cov["evaluations"] = len(recs) + frames
    ctx.cov["reader_streams_by_tag"] = tags
    ctx.cov["signed_frames_written_and_verified"] = frames
    ctx.cov["spec_signed_vectors"] = nvec
    ctx.cov["rule"] = ("reader: TLC-signed frames (3 keys x payload lengths 0,1,45,46,255) read by a real keyed reader untouched, with "
                       "every single bit flipped (long payloads: header/checksum/signature-block bits all, payload bits sampled), flag "
                       "cleared, unsigned, as v1, with a wrong key, with a damaged signature tail; a reader with key AND dialect: spec-signed frames of 3 dialect messages canonical / with trailing zeros kept / with bytes beyond the known fields / of an unknown id (delivered), frames lengthened after signing with length and checksum repaired (refused); writer: frames emitted by keyed "
                       "streamwriter.Writer and frame.Writer.WriteMessage verified by SHA-256 in TLA+; a node with OutKey on three channels "
                       "(application messages, heartbeats, stream requests) with signature, link id and flag judged per wire; distinct = (tag, length, result kinds)")
    ctx.assumptions += ["SHA256.tla is FIPS 180-4 (asserted on three standard vectors)",
                        "completeness (a valid frame is delivered) is only demanded on untampered streams; a tampered frame that is refused is accepted without hashing"]
