"""C05 - frame reader is total, makes progress and resynchronises on arbitrary streams."""
from checks import _stream

PROP = "C05"
LEVEL = "model_checking"


def run(ctx):
    ctx.build_mvh()
    ctx.mc("MC_Frame", "MC_Frame.cfg", env={"VECMOD": 0, "VECOFF": 0}, timeout=1800)
    tr = ctx.path("c05.ndjson")
    ctx.run_mvh(["c05", "-out", tr, "-seed", ctx.seed, "-tier", ctx.tier])
    recs = _stream.validate_streams(ctx, tr)
    tags = {}
    for r in recs:
        tags[r["tag"]] = tags.get(r["tag"], 0) + 1
        kinds = tuple(sorted(set(x["k"] for x in r["results"])))
        ctx.distinct.add((r["tag"], len(r["in"]), r["errat"] >= 0, kinds, len(r["sched"]) > 0))
    for r in recs[:1] + recs[-2:]:
        ctx.sample(r)
    ctx.cov["traces_validated_against_impl"] = len(recs)
    ctx.cov["evaluations"] = len(recs)
    ctx.cov["record_tags"] = tags
    ctx.cov["exhaustive_small_alphabet_length"] = 7 if ctx.thorough() else 5
    ctx.cov["rule"] = ("one STREAM record per run of the real frame.Reader over a finite stream until the transport error: all strings "
                       "over {FE,FD,00,01,02} up to the length bound (whole and byte-by-byte), structured streams (valid/truncated/"
                       "corrupted frames, junk with and without markers) under chunkings cut at every region boundary and with a "
                       "transport error injected at every offset; distinct = (tag, length, fault?, result kinds, chunked?) classes")
    ctx.assumptions += ["cursor = bytes drawn from the transport minus bufio.Reader.Buffered()",
                        "MC_Frame (spec side): the format is prefix-free and self-delimiting, so 'the frame at the cursor' is well defined"]
