"""C05 - frame reader is total, makes progress and resynchronises on arbitrary streams."""
from checks import _stream

PROP = "C05"
LEVEL = "model_checking"


def run(ctx):
    ctx.build_mvh()
    ctx.mc("MC_Frame", "MC_Frame.cfg", env={"VECMOD": 0, "VECOFF": 0}, timeout=1800)
    tr = ctx.path("c05.ndjson")
    ctx.run_mvh(["c05", "-out", tr, "-seed", ctx.seed, "-tier", ctx.tier])
    recs = _stream.validate_streams(ctx, tr)
    # streams of valid frames for a reader that has a key AND a dialect: spec-signed frames of dialect messages in canonical
    # and non-canonical form (trailing zeros kept, bytes beyond the known fields) and of an id the dialect lacks - each must
    # come out; frames lengthened after signing must not (vectors of Gen_SignedDl, as in C06)
    import vf
    defs = ctx.path("defs.json")
    ctx.run_mvh(["defs", "-out", defs])
    rc, out = ctx.tlc("Gen_SignedDl", env={"DEFS": defs, "DIALECT": defs + ".allplus.json", "VSEED": ctx.seed}, tag="gen:signed_dl", timeout=900)
    if _stream.parse_vec_lines(out, ctx.path("sigdlvec.ndjson")) < 20:
        raise vf.Inconclusive("Gen_SignedDl produced too few vectors:\n" + vf.tail(out, 30))
    trd = ctx.path("c05d.ndjson")
    ctx.run_mvh(["c06d", "-aux", "c05", "-vectors", ctx.path("sigdlvec.ndjson"), "-out", trd, "-seed", ctx.seed, "-tier", ctx.tier])
    recs += _stream.validate_streams(ctx, trd, defs=defs)
    tags = {}
    for r in recs:
        tags[r["tag"]] = tags.get(r["tag"], 0) + 1
        kinds = tuple(sorted(set(x["k"] for x in r["results"])))
        ctx.distinct.add((r["tag"], len(r["in"]), r["errat"] >= 0, kinds, len(r["sched"]) > 0))
    for r in recs[:1] + recs[-2:]:
        ctx.sample(r)
    ctx.cov["traces_validated_against_impl"] = len(recs)
    ctx.cov["evaluations"] = len(recs)
    ctx.cov["record_tags"] = tags
    ctx.cov["exhaustive_small_alphabet_length"] = 7 if ctx.thorough() else 5
    ctx.cov["rule"] = ("one STREAM record per run of the real frame.Reader over a finite stream until the transport error: all strings "
                       "over {FE,FD,00,01,02} up to the length bound (whole and byte-by-byte), structured streams (valid/truncated/"
                       "corrupted frames, junk with and without markers) under chunkings cut at every region boundary and with a "
                       "transport error injected at every offset; spec-signed canonical / non-canonical / unknown-id frames through a reader with key and dialect; distinct = (tag, length, fault?, result kinds, chunked?) classes")
    ctx.assumptions += ["cursor = bytes drawn from the transport minus bufio.Reader.Buffered()",
                        "MC_Frame (spec side): the format is prefix-free and self-delimiting, so 'the frame at the cursor' is well defined"]
