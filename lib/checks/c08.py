"""C08 - routing transparency: a frame read and written unchanged stays valid."""
import json

import vf
from checks import _stream

PROP = "C08"
LEVEL = "model_checking"


def run(ctx):
    ctx.build_mvh()
    ctx.mc("MC_Route", "MC_Route.cfg", timeout=900)
    defs = ctx.path("defs.json")
    ctx.run_mvh(["defs", "-out", defs])
    mod = 4 if ctx.thorough() else 40
    rc, out = ctx.tlc("Gen_Route", env={"DEFS": defs, "DIALECT": defs + ".all.json", "VECMOD": mod, "VECOFF": ctx.seed % mod},
                      tag="gen:route", timeout=1800)
    nvec = _stream.parse_vec_lines(out, ctx.path("routevec.ndjson"))
    if nvec == 0:
        raise vf.Inconclusive("Gen_Route produced no vectors:\n" + vf.tail(out, 30))
    tr = ctx.path("route.ndjson")
    ctx.run_mvh(["route", "-vectors", ctx.path("routevec.ndjson"), "-out", tr, "-seed", ctx.seed, "-tier", ctx.tier])
    recs = vf.read_ndjson(tr)
    n = max(1, min(vf.NCPU, len(recs)))
    size = (len(recs) + n - 1) // n
    chunks = [recs[i:i + size] for i in range(0, len(recs), size)]
    paths = []
    for i, ch in enumerate(chunks):
        p = ctx.path("route.part%03d.ndjson" % i)
        with open(p, "w") as f:
            for r in ch:
                f.write(json.dumps(r) + "\n")
        paths.append(p)
    res = ctx.validate("Trace_Reader", paths, env={"DEFS": defs})
    dnames = json.load(open(defs))
    for ch, (_, rejects, walked, _) in zip(chunks, res):
        if walked != len(ch):
            raise vf.Inconclusive("walked %d of %d" % (walked, len(ch)))
        for (line, seq, kind, clauses, _) in rejects:
            r = ch[line - 1]
            if any(c.startswith("H_") for c in clauses):
                raise vf.Inconclusive("harness sanity clause failed: %s on %s" % (clauses, json.dumps(r)[:300]))
            key = "%s:%s:%s:dialect=%s" % (kind, "+".join(sorted(clauses)), r["var"], bool(r["dl"]))
            rr = dict(r)
            rr["dl"] = "all" if r["dl"] else "none"
            rr["message"] = dnames[r["d"] - 1]["type"] if r.get("d") else None
            ctx.finding(key, "%s of variant %s rejected by %s" % (kind, r["var"], clauses), rr)
    var = {}
    for r in recs:
        var[(r["e"], r["var"])] = var.get((r["e"], r["var"]), 0) + 1
        ctx.distinct.add((r["e"], r["var"], bool(r["dl"]), r.get("d")))
    s = dict(recs[0])
    s["dl"] = "all" if s["dl"] else "none"
    ctx.sample(s)
    ctx.cov["traces_validated_against_impl"] = len(recs)
    ctx.cov["evaluations"] = len(recs)
    ctx.cov["spec_vectors"] = nvec
    ctx.cov["records_by_variant"] = {"%s/%s" % k: v for k, v in var.items()}
    ctx.cov["rule"] = ("TLC-computed frames of dialect messages in canonical and non-canonical encodings (untruncated, zero-padded, bytes "
                       "after a string terminator, extensions absent, unknown trailing bytes ending in zero / non-zero, v1, signed, unknown "
                       "id) routed through 1..3 real Reader->Writer hops with and without dialect; FixFrame after editing every field, "
                       "with and without an outgoing key, then a keyed next hop; distinct = (record kind, variant, dialect?, message type)")
    ctx.assumptions += ["with a dialect the property does not promise that a signature survives re-encoding; only header fields and the signature block bytes are compared, signature validity is demanded after FixFrame with an outgoing key"]
