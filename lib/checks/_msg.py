"""Shared driver for the message-codec records (DEF / ENC / DEC) of C03, C04, C17."""
import json

import vf


def short_type(defs, d):
    return defs[d - 1]["type"].replace("github.com/bluenviron/gomavlib/v3/pkg/dialects/", "").replace("verif/harness/cmd/mvh", "user").replace("main.", "user.")


def run_msg(ctx, mode, clause_filter, mc_cfgs):
    ctx.build_mvh()
    for module, cfg in mc_cfgs:
        ctx.mc(module, cfg, timeout=3000)
    tr = ctx.path(mode + ".ndjson")
    ctx.run_mvh(["msg", "-aux", mode, "-out", tr, "-seed", ctx.seed, "-tier", ctx.tier])
    # the same probes of every definition with an 8-byte field on a 32-bit build of the library (GOARCH=386)
    b386 = ctx.build_mvh_386()
    tr386 = ctx.path(mode + "_386.ndjson")
    ctx.run_mvh(["msg", "-aux", mode, "-out", tr386, "-seed", ctx.seed, "-tier", ctx.tier], binary=b386, env_extra={"VERIF_ONLY64": "1"})
    n386 = 0
    with open(tr, "a") as f:
        for r in vf.read_ndjson(tr386):
            if r["e"] == "DEF":
                continue
            r["arch"] = "386"
            f.write(json.dumps(r) + "\n")
            n386 += 1
    ctx.cov["records_from_the_32_bit_build"] = n386
    if n386 == 0:
        raise vf.Inconclusive("the 32-bit build produced no records")
    defs = json.load(open(tr + ".defs.json"))
    parts = vf.split_ndjson(tr, vf.NCPU, ctx.path(mode + "part"))
    res = ctx.validate("Trace_Wire", [p for p, _ in parts], env={"DEFS": tr + ".defs.json"})
    total = 0
    kinds = {}
    ignored = {}
    for (p, off), (_, rejects, walked, _) in zip(parts, res):
        recs = vf.read_ndjson(p)
        total += walked
        for r in recs:
            kinds[r["e"]] = kinds.get(r["e"], 0) + 1
            if r["e"] == "DEF":
                ctx.distinct.add(("DEF", r["d"]))
            elif r["e"] == "ENC":
                nz = tuple(i for i, v in enumerate(r["vals"]) if any(any(b for b in el) for el in v))
                ctx.distinct.add(("ENC", r["d"], r["v2"], nz[:3]))
            else:
                ctx.distinct.add(("DEC", r["d"], r["v2"], len(r["in"]), r["tag"]))
        for (line, seq, kind, clauses, _) in rejects:
            r = recs[line - 1]
            hs = [c for c in clauses if c.startswith("H_")]
            if hs:
                raise vf.Inconclusive("harness sanity clause failed: %s" % hs)
            mine = [c for c in clauses if clause_filter(kind, c)]
            for c in clauses:
                if c not in mine:
                    ignored[c] = ignored.get(c, 0) + 1
            if not mine:
                continue
            key = "%s:%s:%s%s" % (kind, "+".join(sorted(mine)), short_type(defs, r["d"]), ":386" if r.get("arch") == "386" else "")
            rr = dict(r)
            rr["def"] = defs[r["d"] - 1]
            ctx.finding(key, "%s record of %s rejected by clauses %s" % (kind, short_type(defs, r["d"]), mine), rr)
    recs0 = vf.read_ndjson(parts[-1][0])
    for r in recs0[-2:]:
        ctx.sample(r)
    ctx.sample({"def_example": defs[0]})
    ctx.cov["traces_validated_against_impl"] = total
    ctx.cov["evaluations"] = total
    ctx.cov["record_kinds"] = kinds
    ctx.cov["message_definitions"] = len(defs)
    if ignored:
        ctx.cov["clauses_rejected_but_belonging_to_another_property"] = ignored
    return defs
