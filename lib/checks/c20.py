"""C20 - telemetry logs: round trip, crash-truncation safety, no partial entries."""
import json

import vf

PROP = "C20"
LEVEL = "model_checking"


def run(ctx):
    ctx.build_mvh()
    ctx.mc("MC_Tlog", "MC_Tlog.cfg", timeout=900)
    defs = ctx.path("defs.json")
    ctx.run_mvh(["defs", "-out", defs])
    tr = ctx.path("tlog.ndjson")
    ctx.run_mvh(["tlog", "-out", tr, "-seed", ctx.seed, "-tier", ctx.tier])
    recs = vf.read_ndjson(tr)
    n = max(1, min(vf.NCPU, len(recs)))
    size = (len(recs) + n - 1) // n
    chunks = [recs[i:i + size] for i in range(0, len(recs), size)]
    paths = []
    for i, ch in enumerate(chunks):
        p = ctx.path("tlog.part%03d.ndjson" % i)
        with open(p, "w") as f:
            for r in ch:
                f.write(json.dumps(r) + "\n")
        paths.append(p)
    res = ctx.validate("Trace_Reader", paths, env={"DEFS": defs})
    for ch, (_, rejects, walked, _) in zip(chunks, res):
        if walked != len(ch):
            raise vf.Inconclusive("walked %d of %d" % (walked, len(ch)))
        for (line, seq, kind, clauses, _) in rejects:
            r = ch[line - 1]
            if kind == "TLOGW":
                key = "TLOGW:%s:dialect=%s:fault=%s" % ("+".join(sorted(clauses)), bool(r["dl"]), r["fail_at"] > 0)
            else:
                key = "TLOGR:%s:dialect=%s" % ("+".join(sorted(clauses)), bool(r["dl"]))
            rr = dict(r)
            rr["dl"] = "common" if r["dl"] else "none"
            ctx.finding(key, "%s rejected by %s" % (kind, clauses), rr)
    nw = nr = 0
    for r in recs:
        if r["e"] == "TLOGW":
            nw += 1
            ctx.distinct.add(("W", len(r["entries"]), r["fail_at"], r["bad_at"], bool(r["dl"])))
        else:
            nr += 1
            ctx.distinct.add(("R", len(r["file"]), r["cut"], bool(r["dl"])))
    w0 = dict([r for r in recs if r["e"] == "TLOGW"][0])
    w0["dl"] = "none"
    ctx.sample(w0)
    r0 = dict([r for r in recs if r["e"] == "TLOGR"][3])
    r0["dl"] = "none"
    ctx.sample(r0)
    ctx.cov["traces_validated_against_impl"] = len(recs)
    ctx.cov["evaluations"] = len(recs)
    ctx.cov["writer_runs"] = nw
    ctx.cov["prefix_reads"] = nr
    ctx.cov["rule"] = ("seeded logs of 1..5 entries (v1/v2, signed, raw and dialect messages, times before/after 1970, at +-1 ns around "
                       "microsecond boundaries, near the year-2262 limits), written through the real tlog.Writer with a transport error "
                       "injected at the k-th underlying write for every k and unencodable entries at seeded positions; every byte prefix of "
                       "every fault-free log read back with the real tlog.Reader until its first error; distinct = (writer: entries, fault "
                       "position, bad position, dialect) / (reader: file length, cut, dialect)")
    ctx.assumptions += ["expected microsecond value sec*10^6 + floor(nsec/1000) computed in 64-bit two's complement by Wide.tla"]
