"""C17 - shipped dialects are well-formed and mutually consistent."""
import json

import vf

PROP = "C17"
LEVEL = "model_checking"


def run(ctx):
    ctx.build_mvh()
    ctx.mc("MC_Message", "MC_Message.cfg", timeout=1800)
    defs = ctx.path("defs.json")
    ctx.run_mvh(["defs", "-out", defs])
    tr = ctx.path("c17.ndjson")
    ctx.run_mvh(["c17", "-out", tr, "-seed", ctx.seed, "-tier", ctx.tier])
    trx = ctx.path("xenum.ndjson")
    ctx.run_mvh(["enums", "-aux", "c17", "-out", trx, "-seed", ctx.seed, "-tier", ctx.tier])
    # a fresh process in which an in-house dialect with namesake types is initialized BEFORE the shipped dialects
    tru = ctx.path("c17u.ndjson")
    ctx.run_mvh(["c17", "-aux", "userfirst", "-out", tru, "-seed", ctx.seed, "-tier", ctx.tier])
    recs = vf.read_ndjson(tr) + vf.read_ndjson(trx) + vf.read_ndjson(tru)
    n = max(1, min(vf.NCPU, len(recs)))
    size = (len(recs) + n - 1) // n
    chunks = [recs[i:i + size] for i in range(0, len(recs), size)]
    paths = []
    for i, ch in enumerate(chunks):
        p = ctx.path("c17.part%03d.ndjson" % i)
        with open(p, "w") as f:
            for r in ch:
                f.write(json.dumps(r) + "\n")
        paths.append(p)
    res = ctx.validate("Trace_Dialect", paths, env={"DEFS": defs})
    dnames = json.load(open(defs))
    kinds = {}
    for ch, (_, rejects, walked, _) in zip(chunks, res):
        if walked != len(ch):
            raise vf.Inconclusive("walked %d of %d" % (walked, len(ch)))
        for (line, seq, kind, clauses, _) in rejects:
            r = ch[line - 1]
            # a harness sanity clause alone says the harness is wrong; next to clauses of the property it is a consequence
            # (a dialect that does not initialise cannot be looked up)
            if all(c.startswith("H_") for c in clauses):
                raise vf.Inconclusive("harness sanity clause failed: %s" % clauses)
            clauses = [c for c in clauses if not c.startswith("H_")]
            ident = {"DIALECT": lambda: r["name"], "XTYPE": lambda: "%s#%d" % (r["name"], r["id"]), "XENUM": lambda: r["const"],
                     "GOLD": lambda: dnames[r["d"] - 1]["type"].split("/")[-1], "DINIT": lambda: r["case"]}[kind]()
            rr = dict(r)
            if kind == "DIALECT":
                rr["hits"] = "(%d hits omitted)" % len(r["hits"])
            ctx.finding("%s:%s:%s" % (kind, "+".join(sorted(clauses)), ident), "%s %s rejected by %s" % (kind, ident, clauses), rr)
    lookups = 0
    for r in recs:
        kinds[r["e"]] = kinds.get(r["e"], 0) + 1
        if r["e"] == "DIALECT":
            lookups += r["nlookups"]
            ctx.distinct.add(("DIALECT", r["name"]))
        elif r["e"] == "XTYPE":
            ctx.distinct.add(("XTYPE", r["name"], r["id"]))
        elif r["e"] == "XENUM":
            ctx.distinct.add(("XENUM", r["const"]))
        elif r["e"] == "GOLD":
            ctx.distinct.add(("GOLD", r["d"]))
        else:
            ctx.distinct.add(("DINIT", r["case"]))
    d0 = dict([r for r in recs if r["e"] == "DIALECT"][0])
    d0["hits"] = d0["hits"][:3] + ["..."]
    d0["decl"] = d0["decl"][:5] + ["..."]
    ctx.sample(d0)
    ctx.sample([r for r in recs if r["e"] == "XENUM"][0])
    ctx.sample({k: v for k, v in [r for r in recs if r["e"] == "DINIT"][1].items() if k != "defs"})
    ctx.cov["traces_validated_against_impl"] = len(recs)
    ctx.cov["evaluations"] = lookups + len(recs)
    ctx.cov["id_lookups"] = lookups
    ctx.cov["records_by_kind"] = kinds
    ctx.cov["exhaustive"] = True
    ctx.cov["rule"] = ("complete enumeration: all 19 shipped dialects x all ids 0..2^24-1 (lookup hits compared with the declared "
                       "messages), every (message name, id) pair across dialects (type identity), every enum constant name across "
                       "dialects (value equality), CRC_EXTRA of every message of minimal/standard/common/test against the published "
                       "table, 13 user dialects with injected duplicates / malformed structs; distinct = records")
    ctx.assumptions += ["the published CRC_EXTRA table (mavlink c_library_v2 common.h) is transcribed from memory into PDialect!Golden for "
                        "~190 message ids; every entry agrees with the spec-derived value on the unchanged tree",
                        "payload-size and CRC_EXTRA derivation per definition are C03's subject (shared operators)"]
