"""C02 - checksum gate: X.25 CRC with CRC_EXTRA decides delivery."""
import vf
from checks import _stream

PROP = "C02"
LEVEL = "model_checking"

MINE = {"no_panic", "frame_matches_consumed_bytes", "checksum_gate", "valid_frame_delivered", "result_kind",
        "independent_of_chunking", "progress", "every_valid_frame_delivered_under_concurrency"}


def run(ctx):
    ctx.build_mvh()
    # (spec side) table-driven step == bit-serial CRC-16/MCRF4XX on all 2^24 pairs
    ctx.mc("MC_X25", "MC_X25.cfg", timeout=1800)
    # (a)+(b) the real x25 package
    trx = ctx.path("x25.ndjson")
    ctx.run_mvh(["x25", "-out", trx, "-seed", ctx.seed, "-tier", ctx.tier])
    parts = vf.split_ndjson(trx, vf.NCPU, ctx.path("x25part"))
    res = ctx.validate("Trace_Wire", [p for p, _ in parts], env={"DEFS": "-"})
    nx = 0
    pairs = 0
    for (p, off), (_, rejects, walked, _) in zip(parts, res):
        recs = vf.read_ndjson(p)
        nx += walked
        for r in recs:
            if r["e"] == "X25ALL":
                pairs += 65536
                ctx.distinct.add(("X25ALL", r["b1"]))
            else:
                ctx.distinct.add(("X25S", sum(len(c) for c in r["chunks"]), len(r["chunks"])))
        for (line, seq, kind, clauses, _) in rejects:
            r = recs[line - 1]
            if any(c.startswith("H_") for c in clauses):
                raise vf.Inconclusive("harness sanity clause failed")
            if kind == "X25ALL":
                r = {"e": kind, "b1": r["b1"], "sums": "(65536 values omitted)"}
            ctx.finding("%s:%s" % (kind, "+".join(sorted(clauses))), "x25 record rejected: %s" % clauses, r)
    # (c) the gate: spec-made valid frames of dialect messages, damaged, through a real dialect reader
    defs = ctx.path("defs.json")
    ctx.run_mvh(["defs", "-out", defs])
    mod = 1 if ctx.thorough() else 10
    rc, out = ctx.tlc("Gen_Gate", env={"DEFS": defs, "DIALECT": defs + ".allplus.json", "VECMOD": mod, "VECOFF": ctx.seed % mod},
                      tag="gen:gate", timeout=1200)
    nvec = _stream.parse_vec_lines(out, ctx.path("gatevec.ndjson"))
    if nvec == 0:
        raise vf.Inconclusive("Gen_Gate produced no vectors:\n" + vf.tail(out, 30))
    trg = ctx.path("gate.ndjson")
    ctx.run_mvh(["gate", "-vectors", ctx.path("gatevec.ndjson"), "-out", trg, "-seed", ctx.seed, "-tier", ctx.tier])
    recs = _stream.validate_streams(ctx, trg, defs=defs, clause_filter=lambda c: c in MINE)
    delivered = 0
    # the gate of a second dialect in the same process whose messages are namesakes of shipped ones
    rc, out = ctx.tlc("Gen_Gate", env={"DEFS": defs, "DIALECT": defs + ".inhouse.json", "VECMOD": 1, "VECOFF": 0},
                      tag="gen:gate_inhouse", timeout=600)
    nvi = _stream.parse_vec_lines(out, ctx.path("gatevec_inhouse.ndjson"))
    if nvi == 0:
        raise vf.Inconclusive("Gen_Gate (in-house dialect) produced no vectors:\n" + vf.tail(out, 30))
    trgi = ctx.path("gate_inhouse.ndjson")
    ctx.run_mvh(["gate", "-aux", "inhouse", "-vectors", ctx.path("gatevec_inhouse.ndjson"), "-out", trgi, "-seed", ctx.seed, "-tier", ctx.tier])
    recs += _stream.validate_streams(ctx, trgi, defs=defs, clause_filter=lambda c: c in MINE)
    # the gate behind a signature check: a reader with an incoming key AND a dialect. Spec-made frames whose checksum is wrong
    # (one bit off / computed with another CRC_EXTRA) under a signature that is VALID over those bytes must not be delivered;
    # the correctly summed signed frames of the same messages must (vectors of Gen_SignedDl, as in C06)
    rc, out = ctx.tlc("Gen_SignedDl", env={"DEFS": defs, "DIALECT": defs + ".allplus.json", "VSEED": ctx.seed}, tag="gen:signed_dl", timeout=900)
    nvd = _stream.parse_vec_lines(out, ctx.path("sigdlvec.ndjson"))
    if nvd < 26:
        raise vf.Inconclusive("Gen_SignedDl produced %d vectors:\n%s" % (nvd, vf.tail(out, 30)))
    trk = ctx.path("gate_keyed.ndjson")
    ctx.run_mvh(["c06d", "-aux", "c06", "-vectors", ctx.path("sigdlvec.ndjson"), "-out", trk, "-seed", ctx.seed, "-tier", ctx.tier])
    krecs = _stream.validate_streams(ctx, trk, defs=defs, clause_filter=lambda c: c in MINE)
    ctx.cov["keyed_gate_streams"] = len(krecs)
    ctx.cov["keyed_gate_wrong_checksum_streams"] = sum(1 for r in krecs if r.get("tag", "").startswith("kd_badck"))
    if ctx.cov["keyed_gate_wrong_checksum_streams"] == 0:
        raise vf.Inconclusive("no wrongly summed signed frame was played")
    recs += krecs
    conc = [r for r in recs if r["e"] == "CONC"]
    recs = [r for r in recs if r["e"] == "STREAM"]
    ctx.cov["concurrent_readers_sharing_a_dialect"] = [{"passes": r["passes"], "delivered": r["delivered"], "perr": r["perr"]} for r in conc]
    for r in recs:
        kinds = tuple(x["k"] for x in r["results"])
        delivered += sum(1 for k in kinds if k == "frame")
        ctx.distinct.add((r["tag"], len(r["in"]), kinds[:3]))
    ctx.sample({"x25_all_pairs_checked": pairs})
    ctx.sample(recs[0])
    ctx.sample(recs[len(recs) // 2])
    ctx.cov["traces_validated_against_impl"] = nx + len(recs)
    ctx.cov["evaluations"] = pairs + nx + len(recs)
    # (d) the gate behind datagram transports: UDP client / broadcast / server peers sending single frames, damaged frames and
    #     datagrams that carry many frames (300..500 bytes): every valid frame is delivered, nothing damaged is
    import random
    import scenarios
    from checks import _node
    rng = random.Random(ctx.seed)
    scs = scenarios.fam_udp(rng, 16 if ctx.thorough() else 4) + [
        sc for sc in scenarios.fam_events_server(rng, 24 if ctx.thorough() else 8) if "udp_server" in sc["name"]]
    runs = _node.play(ctx, scs)
    st = _node.validate(ctx, runs, defs, ["C10.frame_event_without_valid_frame_fed", "C10.frames_lossless_and_in_order",
                                          "C10.nothing_lost_before_close"])
    ctx.cov["datagram_scenarios"] = st["scenarios"]
    ctx.cov["crc_step_pairs_checked_on_real_code"] = pairs
    ctx.cov["crc_step_pairs_exhaustive"] = pairs == 1 << 24
    ctx.cov["gate_vectors_from_spec"] = nvec
    ctx.cov["gate_streams"] = len(recs)
    ctx.cov["gate_frames_delivered"] = delivered
    ctx.cov["rule"] = ("(a) real Sum16 of all 3-byte strings with a given first byte (= all 65536x256 (register,byte) pairs behind it); "
                       "(b) random strings <=300 bytes in random splits; (c) TLC-computed valid frames of dialect messages read by a real "
                       "dialect reader untouched, with every single-bit flip, byte substitutions, multi-byte damage, and - through a reader with an incoming key - validly signed frames with a wrong checksum; (d) a node behind UDP client / "
                       "broadcast / server transports fed single, damaged and many-frames-per-datagram input; distinct = record "
                       "classes (first byte | length/splits | tag, length, result kinds)")
    ctx.assumptions += ["X25.tla bit-serial definition is CRC-16/MCRF4XX (catalogue check value 0x6F91 asserted)",
                        "CRC_EXTRA derived by the spec from the reflected definition (C03)"]
