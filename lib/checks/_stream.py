"""Shared processing of STREAM records validated by Trace_Reader."""
import json

import vf


def parse_vec_lines(out, path):
    n = 0
    with open(path, "w") as f:
        for ln in out.splitlines():
            if ln.startswith('"VEC '):
                body = ln[5:-1].replace('\\"', '"')
                json.loads(body)
                f.write(body + "\n")
                n += 1
    return n


def validate_streams(ctx, trace, defs="-", clause_filter=None, module="Trace_Reader", parts=None, keyfn=None):
    """Split (on group boundaries), validate, turn rejects into findings. Returns record count."""
    recs = vf.read_ndjson(trace)
    nparts = parts or vf.NCPU
    # split on group boundaries so that the chunking reference stays inside one part
    size = max(1, (len(recs) + nparts - 1) // nparts)
    chunks = []
    cur = []
    for r in recs:
        if len(cur) >= size and (not cur or r.get("g") != cur[-1].get("g")):
            chunks.append(cur)
            cur = []
        cur.append(r)
    if cur:
        chunks.append(cur)
    paths = []
    for i, ch in enumerate(chunks):
        p = ctx.path("%s.part%03d.ndjson" % (trace.split("/")[-1], i))
        with open(p, "w") as f:
            for r in ch:
                f.write(json.dumps(r) + "\n")
        paths.append(p)
    res = ctx.validate(module, paths, env={"DEFS": defs})
    ignored = {}
    for ch, (_, rejects, walked, _) in zip(chunks, res):
        if walked != len(ch):
            raise vf.Inconclusive("walked %d of %d" % (walked, len(ch)))
        for (line, seq, kind, clauses, _) in rejects:
            r = ch[line - 1]
            hs = [c for c in clauses if c.startswith("H_")]
            if hs:
                raise vf.Inconclusive("harness sanity clause failed: %s" % hs)
            mine = [c for c in clauses if clause_filter is None or clause_filter(c)]
            for c in clauses:
                if c not in mine:
                    ignored[c] = ignored.get(c, 0) + 1
            if not mine:
                continue
            key = keyfn(r, mine) if keyfn else "%s:%s:%s" % (kind, "+".join(sorted(mine)), r.get("tag", ""))
            ctx.finding(key, "%s record (tag %s) rejected by clauses %s" % (kind, r.get("tag"), mine), r)
    if ignored:
        ctx.cov.setdefault("clauses_rejected_but_belonging_to_another_property", {}).update(ignored)
    return recs
