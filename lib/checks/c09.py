"""C09 - originated frames: configured identity, version, gapless sequence numbers."""
from checks import _writer

PROP = "C09"
LEVEL = "model_checking"

NOT_MINE = {"signature", "timestamp_monotone", "timestamp_clock", "link_id"}


def run(ctx):
    ctx.build_mvh()
    ctx.mc("MC_Writer", "MC_Writer.cfg", timeout=1800)
    # unbounded: counter = emitted mod 256 for histories of any length (inductive invariant, Apalache)
    import vf
    if not ctx.apalache("SeqInt", "SeqInt_fixed.cfg"):
        raise vf.Inconclusive("Apalache did not discharge the inductive invariant of SeqInt (model of the current code)")
    defs = ctx.path("defs.json")
    ctx.run_mvh(["defs", "-out", defs])
    tr = ctx.path("c09.ndjson")
    ctx.run_mvh(["wlink", "-aux", "c09", "-out", tr, "-seed", ctx.seed, "-tier", ctx.tier])
    recs, frames = _writer.validate_links(ctx, tr, defs, clause_filter=lambda c: c not in NOT_MINE)
    node_part(ctx)
    ctx.sample({k: v for k, v in recs[0].items()})
    w = [r for r in recs if r["e"] == "WLINK"][0]
    ctx.sample({"cfg": w["cfg"], "impl": w["impl"], "first_writes": w["writes"][:2], "n_writes": len(w["writes"])})
    ctx.cov["traces_validated_against_impl"] = len(recs) + ctx.cov.get("node_links", 0)
    ctx.cov["evaluations"] = frames + sum(1 for r in recs if r["e"] == "WINIT")
    ctx.cov["frames_checked"] = frames
    ctx.cov["rule"] = ("WINIT: all (version 0/1/2) x (system id 0/1/255) x (component 0/1/7) x (key none/set) initialisations of "
                       "streamwriter.Writer; WLINK: histories of 700 writes (two wrap-arounds) mixing decoded and raw messages of the "
                       "common dialect with refused items (id outside dialect, id>255 on v1) at seeded positions, on streamwriter.Writer "
                       "and frame.Writer.WriteMessage, plus refusals at every position of short histories; every emitted frame is parsed "
                       "and judged by the PWriter monitor; distinct = (impl, version, keyed, comp unset, length, refusals) classes")
    ctx.assumptions += ["payload expectation from MavMessage!Encode (C03), checksum from X25 + spec-derived CRC_EXTRA"]


def node_part(ctx):
    """Node links (application messages, heartbeats, stream requests on three custom endpoints; all initialisations)."""
    import random
    import scenarios
    from checks import _node
    scs = scenarios.fam_links(random.Random(ctx.seed), ctx.thorough())
    defs = ctx.path("defs.json")
    runs = _node.play(ctx, scs)
    st = _node.validate(ctx, runs, defs, ["C09."])
    ctx.cov["node_links"] = st["scenarios"]
    ctx.cov["node_stats"] = st
