"""Shared driver of the node engine: play scenarios against the real node, validate the traces with Trace_Node."""
import json
import os
import re
import subprocess
from concurrent.futures import ThreadPoolExecutor

import vf


def play(ctx, scenarios, binary=None, timeout=90, env_extra=None, workers=None):
    """Run every scenario in its own `mvh node` process. Returns list of (scenario, trace_path, rc, stderr)."""
    binary = binary or ctx.mvh
    sdir = ctx.path("scen")
    os.makedirs(sdir, exist_ok=True)
    env = dict(os.environ)
    env.update(vf.GOENV)
    if env_extra:
        env.update(env_extra)

    def one(ix):
        sc = scenarios[ix]
        sc["conf"]["sid"] = ix
        sp = os.path.join(sdir, "s%04d.json" % ix)
        tp = os.path.join(sdir, "t%04d.ndjson" % ix)
        with open(sp, "w") as f:
            json.dump(sc, f)
        try:
            p = subprocess.run([binary, "node", "-vectors", sp, "-out", tp], cwd=ctx.scratch, env=env, stdin=subprocess.DEVNULL,
                               capture_output=True, text=True, timeout=timeout)
            rc, err = p.returncode, p.stderr
        except subprocess.TimeoutExpired as e:
            rc, err = -9, "player timed out after %ds" % timeout
        return (sc, tp, rc, err)

    with ThreadPoolExecutor(max_workers=workers or vf.NCPU) as ex:
        return list(ex.map(one, range(len(scenarios))))


_pair = re.compile(r'<<"([^"]+)", (\d+)>>')


def validate(ctx, runs, defs, prop_prefixes, keyfn=None):
    """Concatenate traces (a Scenario record resets the monitor), validate, create findings for the clauses
    whose name starts with one of prop_prefixes. Returns statistics."""
    groups = [[] for _ in range(min(vf.NCPU, max(1, len(runs))))]
    for i, r in enumerate(runs):
        groups[i % len(groups)].append(r)
    paths = []
    stats = {"scenarios": len(runs), "events": 0, "crashed": 0, "clauses_other_properties": {}}
    for gi, g in enumerate(groups):
        p = ctx.path("nodetrace_%02d.ndjson" % gi)
        with open(p, "w") as out:
            for (sc, tp, rc, err) in g:
                lines = open(tp).read().splitlines() if os.path.exists(tp) else []
                if not lines:
                    raise vf.Inconclusive("scenario %s produced no trace (rc=%s): %s" % (sc["name"], rc, err[-1500:]))
                last = json.loads(lines[-1])
                amb = [ln for ln in lines if '"e":"Ambiguous"' in ln.replace(" ", "")]
                if amb:
                    # the harness could not attribute something it observed: no verdict from this run
                    raise vf.Inconclusive("scenario %s: harness observation ambiguous: %s" % (sc["name"], amb[0][:300]))
                if rc != 0:
                    crash = ("panic:" in err or "fatal error:" in err)
                    lib = "gomavlib/v3" in err
                    if rc == 2 and not crash:
                        raise vf.Inconclusive("player failed on %s: %s" % (sc["name"], err[-1500:]))
                    if rc == -9:
                        # the player itself hung: only possible if a library call never returned
                        lines.append(json.dumps({"e": "Timeout", "what": "close_return", "seq": last["seq"] + 1, "t": last.get("t", 0)}))
                    elif crash and lib:
                        stats["crashed"] += 1
                        lines.append(json.dumps({"e": "Panic", "seq": last["seq"] + 1, "t": last.get("t", 0), "stderr": err[-800:]}))
                    else:
                        raise vf.Inconclusive("player crashed outside the library on %s: %s" % (sc["name"], err[-1500:]))
                    lines.append(json.dumps({"e": "Final", "seq": last["seq"] + 2, "t": last.get("t", 0), "goroutines_left": 0, "stacks": [],
                                             "ports_rebound": True, "custom_close": [], "events_closed": True, "conns_not_released": 0,
                                             "serial_not_closed": 0, "frames_changed_after_delivery": 0, "sockets_left": 0, "synthetic": True}))
                stats["events"] += len(lines)
                out.write("\n".join(lines) + "\n")
        paths.append(p)
    res = ctx.validate("Trace_Node", paths, env={"DEFS": defs}, timeout=1800)
    by_sid = {sc["conf"]["sid"]: (sc, tp) for (sc, tp, rc, err) in runs}
    for (_, rejects, walked, out) in res:
        for (_line, sid, _kind, rest) in vf.reject_tuples(out):
            sc, tp = by_sid.get(sid, (None, None))
            pairs = _pair.findall(rest)
            trace = vf.read_ndjson(tp) if tp else []
            for clause, seq in pairs:
                if not any(clause.startswith(pfx) for pfx in prop_prefixes):
                    stats["clauses_other_properties"][clause] = stats["clauses_other_properties"].get(clause, 0) + 1
                    continue
                parts = sc["name"].split("/") if sc else ["?"]
                fam = parts[0] + ("/" + parts[1] if len(parts) > 1 and not parts[1].isdigit() else "")
                ev = next((x for x in trace if x.get("seq") == int(seq)), None)
                if ev and "bytes" in ev:
                    ev = dict(ev)
                    ev["bytes"] = "(%d bytes)" % len(ev["bytes"])
                ctx.finding("NODE:%s:%s" % (clause, fam),
                            "scenario %s violates %s at event %s" % (sc["name"] if sc else sid, clause, seq),
                            {"scenario": sc, "event": ev, "clause": clause})
    return stats


def shape(sc):
    ops = tuple(s["op"] for s in sc["steps"])
    return (sc["name"].split("/")[0], len(sc["endpoints"]), tuple(e["kind"] for e in sc["endpoints"]), len(ops),
            sum(1 for o in ops if o in ("read_err", "twrite_mode", "hold", "hold_at_start", "close", "consumer", "listener_mode")))


def model_check(ctx, family):
    """Exhaustive TLC runs of the INode model for this property family (spec-side result)."""
    cfgs = MC_CONFIGS.get(family, [])
    for cfg, thorough_only in cfgs:
        if thorough_only and not ctx.thorough():
            continue
        if os.path.exists(os.path.join(ctx.specdir, cfg + ".cfg")):
            ctx.mc("MC_Node", cfg + ".cfg", timeout=3000, heap="16g")


GEN_FAMILY = {"events": "events", "close": "close", "fanout": "fanout", "stall": "fanout", "auto": "auto", "faults": "events"}


def generated(ctx, family):
    """Scenarios generated by TLC (-simulate) from the INode model: the environment actions of each behaviour and,
    at the Close call, where every goroutine of the model was parked (replayed with gate hooks)."""
    import scenarios
    cfg = GEN_FAMILY.get(family)
    if not cfg:
        return []
    num = 2500 if ctx.thorough() else 120
    rc, out = ctx.tlc("Gen_Node", "Gen_Node_%s.cfg" % cfg, workers=1, timeout=600, heap="4g", tag="gen:node_" + cfg, count=False,
                      extra=["-simulate", "num=%d" % num, "-depth", "150", "-seed", str(ctx.seed)])
    hists = []
    seen = set()
    for ln in out.splitlines():
        if ln.startswith('"SCEN '):
            body = ln[6:-1].replace('\\"', '"')
            if body in seen:
                continue
            seen.add(body)
            hists.append(json.loads(body))
    if not hists:
        raise vf.Inconclusive("Gen_Node_%s produced no behaviour:\n%s" % (cfg, vf.tail(out, 30)))
    limit = 1500 if ctx.thorough() else 40
    # prefer behaviours whose Close finds goroutines parked, then the longest
    hists.sort(key=lambda h: (-max([len(x.get("parked", [])) for x in h if x["e"] == "close"] + [0]), -len(h)))
    scs = [to_scenario(h, i, cfg) for i, h in enumerate(hists[:limit])]
    ctx.cov.setdefault("tlc_generated_scenarios", {})[cfg] = len(scs)
    ctx.cov.setdefault("tlc_behaviours", {})[cfg] = len(hists)
    return scs


def to_scenario(hist, idx, cfg):
    """Map a model behaviour to player steps. Channels <<e, i>> become (endpoint index, instance)."""
    import scenarios
    eps = sorted(set([x["ch"][0] for x in hist if "ch" in x] + ["e1"] + (["e2"] if cfg != "events" else [])))
    epi = {e: i for i, e in enumerate(eps)}
    tag = [700000 + 1000 * idx]

    def nt():
        tag[0] += 1
        return tag[0]

    hb = cfg in ("events", "close", "auto")
    conf = scenarios.conf(hb_disable=not hb, hb_period_ms=4, sr_enable=(cfg == "auto"), skip_hb_rate=True)
    steps = []
    closes = [i for i, x in enumerate(hist) if x["e"] == "close"]
    ci = closes[0] if closes else None
    parked = hist[ci]["parked"] if ci is not None else []
    # where to arm each gate: before the last relevant environment step preceding the Close
    arm = {}     # hist index -> [(point, ep)]
    start = []
    for point, ch in parked:
        ep = epi.get(ch[0], 0)
        inst = ch[1]
        if point == "hb.send":
            start.append((point, -1))
            continue
        rel = None
        for j in range(ci - 1, -1, -1):
            x = hist[j]
            if point in ("rd.pushEvent",) and x["e"] == "arrive" and x["ch"][0] == ch[0] and x["r"] != "fatal":
                rel = j
                break
            if point in ("run.pushClose", "run.closeChannel") and x["e"] == "arrive" and x["ch"][0] == ch[0] and x["r"] == "fatal":
                rel = j
                break
            if point in ("rd.pushOpen", "prov.newChannel") and inst > 1 and x["e"] == "arrive" and x["ch"][0] == ch[0] and x["r"] == "fatal":
                rel = j
                break
            if point == "wr.write" and x["e"] == "write":
                rel = j
                break
        if rel is None:
            if point in ("rd.pushOpen", "prov.newChannel"):
                start.append((point, ep))
        else:
            arm.setdefault(rel, []).append((point, ep))
    for point, ep in start:
        steps.append({"op": "hold_at_start", "point": point, "ep": ep})
    gated_start = set(ep for point, ep in start if point in ("rd.pushOpen", "prov.newChannel"))
    for e in eps:
        if epi[e] not in gated_start:
            steps.append({"op": "wait_open", "ep": epi[e]})
    inst = {e: 1 for e in eps}
    closed = False
    for j, x in enumerate(hist):
        for point, ep in arm.get(j, []):
            steps.append({"op": "quiesce", "ms": 200})
            steps.append({"op": "hold", "point": point, "ep": ep})
        if x["e"] == "arrive":
            ep = epi[x["ch"][0]]
            if x["r"] == "fatal":
                steps.append({"op": "read_err", "ep": ep})
                inst[x["ch"][0]] += 1
                if not closed and not arm.get(j):
                    steps.append({"op": "sleep", "ms": 3})
            else:
                kind = {"ok": "valid", "bad": "badck", "ap": "hb"}[x["r"]]
                steps.append(scenarios.feed(ep, kind, nt(), autopilot=3 if x["r"] == "ap" else 0, sys=1 + j % 2, comp=1))
        elif x["e"] == "write":
            g = 1 if x["w"] == "w1" else 2
            kind = {"all": "MsgAll", "to": "MsgTo", "except": "MsgExcept"}[x["kind"]]
            if x["kind"] == "all":
                steps.append(scenarios.write(g, kind, nt()))
            else:
                steps.append(scenarios.write(g, kind, nt(), ep=epi[x["ch"][0]], inst=x["ch"][1]))
        elif x["e"] == "consumer":
            steps.append({"op": "consumer", "run": x["run"]})
            steps.append({"op": "sleep", "ms": 2})
        elif x["e"] == "tmode":
            steps.append({"op": "twrite_mode", "ep": epi[x["ch"][0]], "mode": x["mode"], "at": 1 if x["mode"] == "fail" else 0})
        elif x["e"] == "close":
            for point, ch in parked:
                steps.append({"op": "wait_held", "point": point, "ep": -1 if point == "hb.send" else epi.get(ch[0], 0)})
            steps.append({"op": "close", "from": "async"})
            steps.append({"op": "sleep", "ms": 5})
            closed = True
        for point, ep in arm.get(j, []):
            pass
    if closed:
        steps.append({"op": "wait_closed"})
    else:
        steps.append({"op": "wait_writes"})
        steps.append({"op": "consumer", "run": True})
        steps.append({"op": "quiesce", "ms": 1500})
    return {"name": "tlc_%s/%d" % (cfg, idx), "conf": conf, "endpoints": scenarios.customs(len(eps)), "steps": steps,
            "model_behaviour": hist}


# (config, thorough_only)
MC_CONFIGS = {
    "events": [("MC_Node_events_a", False), ("MC_Node_events_c", False), ("MC_Node_events_b", False), ("MC_Node_events_d", False)],
    "fanout": [("MC_Node_fanout_b", False), ("MC_Node_fanout_q", False), ("MC_Node_fanout_a", True)],
    "close": [("MC_Node_close_a", False), ("MC_Node_close_b", False), ("MC_Node_close_e", False),
              ("MC_Node_close_c", True), ("MC_Node_close_d", True), ("MC_Node_close_a_safe", True)],
    "stall": [("MC_Node_fanout_q", False), ("MC_Node_fanout_a", True)],
    "faults": [("MC_Node_events_c", False), ("MC_Node_events_b", False)],
    "auto": [("MC_Node_auto_a", False)],
}


def run_family(ctx, scs, prefixes, rule, family=None, binary=None, timeout=90, workers=None):
    if family:
        model_check(ctx, family)
        scs = scs + generated(ctx, family)
    defs = ctx.path("defs.json")
    ctx.run_mvh(["defs", "-out", defs])
    runs = play(ctx, scs, binary=binary, timeout=timeout, workers=workers)
    st = validate(ctx, runs, defs, prefixes)
    if family in ("events", "close"):
        fidelity(ctx, runs, limit=200 if ctx.thorough() else 24)
    for sc in scs:
        ctx.distinct.add(shape(sc))
    ctx.sample({"name": scs[0]["name"], "conf": scs[0]["conf"], "endpoints": scs[0]["endpoints"], "steps": scs[0]["steps"][:10]})
    tr = vf.read_ndjson(runs[0][1])
    for e in tr:
        if "bytes" in e:
            e["bytes"] = "(%d bytes)" % len(e["bytes"])
    ctx.sample({"trace_head": tr[:10]})
    ctx.cov["traces_validated_against_impl"] = ctx.cov.get("traces_validated_against_impl", 0) + st["scenarios"]
    ctx.cov["evaluations"] = ctx.cov.get("evaluations", 0) + st["events"]
    ctx.cov["node_stats"] = st
    ctx.cov["rule"] = rule
    return runs, st


# ---------------------------------------------------------------------------------------------- fidelity
def project(trace):
    """Project a recorded node trace onto the observable alphabet of the INode model (for Trace_INode)."""
    eps = {0: "e1", 1: "e2"}
    out = []
    wcount = {}
    tagmap = {}
    for r in trace:
        e = r["e"]
        if e == "Feed":
            kind = {"valid": "ok", "badck": "bad", "hb": "ap"}.get(r["kind"])
            if kind is None:
                return None
            out.append({"e": "arrive", "ep": eps[r["ep"]], "r": kind})
        elif e == "ReadErr":
            out.append({"e": "arrive", "ep": eps[r["ep"]], "r": "fatal"})
        elif e == "WInv":
            w = "w%d" % r["g"]
            wcount[w] = wcount.get(w, 0) + 1
            tagmap[r["tag"]] = (w, wcount[w])
            kind = {"MsgAll": "all", "MsgTo": "to", "MsgExcept": "except"}.get(r["kind"])
            if kind is None or r["target"] in ("foreign", "unknown"):
                return None
            out.append({"e": "write", "w": w, "kind": kind, "ep": eps.get(r["tep"], "e1"), "inst": max(1, r["tinst"])})
        elif e == "Consumer":
            out.append({"e": "consumer", "run": r["run"]})
        elif e == "TMode":
            out.append({"e": "tmode", "ep": eps[r["ep"]], "mode": r["mode"]})
        elif e == "CloseInv":
            out.append({"e": "close"})
        elif e == "Ev":
            if r["type"] == "streamreq" or r["inst"] == 0:
                return None
            out.append({"e": "ev", "type": r["type"], "ep": eps[r["ep"]], "inst": r["inst"]})
        elif e == "TW":
            b = r["bytes"]
            if len(b) > 14 and b[0] == 253 and (b[7] | b[8] << 8 | b[9] << 16) == 252:
                tag = b[10] | b[11] << 8 | b[12] << 16
                if tag in tagmap:
                    out.append({"e": "wire", "ep": eps[r["ep"]], "w": tagmap[tag][0], "i": tagmap[tag][1]})
        elif e in ("Timeout", "Panic", "TWFail", "Unreached"):
            return None
    return out


def fidelity(ctx, runs, limit=24):
    """Validate the observable behaviour of replayed TLC-generated scenarios against the INode model
    (Trace_INode, depth-first search with silent steps). A rejected trace is MODEL-DRIFT, never a violation."""
    todo = []
    for (sc, tp, rc, err) in runs:
        if not sc["name"].startswith(("tlc_events", "tlc_close")) or rc != 0:
            continue
        tr = project(vf.read_ndjson(tp))
        if not tr:
            continue
        neps = len(sc["endpoints"])
        if neps > 2 or max([x.get("inst", 1) for x in tr] + [1]) > 3 or len(tr) > 40:
            continue
        p = tp + ".abs.ndjson"
        with open(p, "w") as f:
            for x in tr:
                f.write(json.dumps(x) + "\n")
        todo.append((sc["name"], p, neps))
        if len(todo) >= limit:
            break

    def one(t):
        name, p, neps = t
        # model constants fitted to the trace: the environment of the model is then fully driven by the recorded events
        tr = vf.read_ndjson(p)
        writers = sorted(set(x["w"] for x in tr if x["e"] == "write"))
        nwrites = max([sum(1 for x in tr if x["e"] == "write" and x["w"] == w) for w in writers] + [0])
        arrivals = max([sum(1 for x in tr if x["e"] == "arrive" and x["ep"] == e) for e in ("e1", "e2")] + [1])
        fatals = max([sum(1 for x in tr if x["e"] == "arrive" and x["ep"] == e and x["r"] == "fatal") for e in ("e1", "e2")] + [0])
        insts = max([x.get("inst", 1) for x in tr] + [1])
        budget = sum(1 for x in tr if x["e"] in ("consumer", "tmode"))
        base = open(os.path.join(ctx.specdir, "Trace_INode_%d.cfg" % neps)).read()
        cfg = base
        for k, v in (("Writers", "{%s}" % ", ".join('"%s"' % w for w in writers)), ("NWrites", nwrites), ("MaxIn", arrivals),
                     ("MaxCh", max(insts, fatals + 1) + 1), ("EnvBudget", budget), ("QCap", max(2, nwrites * max(1, len(writers)) + 1))):
            cfg = re.sub(r"(?m)^  %s = .*$" % k, "  %s = %s" % (k, v), cfg)
        cname = "Trace_INode_fit_%s.cfg" % os.path.basename(p).split(".")[0]
        with open(os.path.join(ctx.specdir, cname), "w") as f:
            f.write(cfg)
        try:
            rc, out = ctx.tlc("Trace_INode", cname, env={"TRACE": p}, workers=1, timeout=90, heap="3g",
                              deque=True, tag="fidelity:" + name, count=False)
        except vf.Inconclusive:
            return (name, "timeout")
        if "Invariant NotAccepted is violated" in out:
            return (name, "accepted")
        if "Model checking completed" in out:
            return (name, "drift")
        return (name, "error:" + vf.tail(out, 5))

    with ThreadPoolExecutor(max_workers=max(2, vf.NCPU // 2)) as ex:
        res = list(ex.map(one, todo))
    acc = [n for n, v in res if v == "accepted"]
    drift = [n for n, v in res if v == "drift"]
    other = [(n, v) for n, v in res if v not in ("accepted", "drift")]
    for n in drift:
        print("MODEL-DRIFT property=%s scenario=%s (observable trace is not a behaviour of INode; not a violation)" % (ctx.prop, n), flush=True)
    ctx.cov["model_fidelity"] = {"traces_checked_against_INode": len(res), "accepted": len(acc), "drift": drift[:10],
                                 "inconclusive": [n for n, v in other][:10]}
    return res
