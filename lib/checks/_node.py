"""Shared driver of the node engine: play scenarios against the real node, validate the traces with Trace_Node."""
import json
import os
import re
import subprocess
from concurrent.futures import ThreadPoolExecutor

import vf


def play(ctx, scenarios, binary=None, timeout=90, env_extra=None, workers=None):
    """Run every scenario in its own `mvh node` process. Returns list of (scenario, trace_path, rc, stderr)."""
    binary = binary or ctx.mvh
    sdir = ctx.path("scen")
    os.makedirs(sdir, exist_ok=True)
    env = dict(os.environ)
    env.update(vf.GOENV)
    if env_extra:
        env.update(env_extra)

    def one(ix):
        sc = scenarios[ix]
        sc["conf"]["sid"] = ix
        sp = os.path.join(sdir, "s%04d.json" % ix)
        tp = os.path.join(sdir, "t%04d.ndjson" % ix)
        with open(sp, "w") as f:
            json.dump(sc, f)
        try:
            p = subprocess.run([binary, "node", "-vectors", sp, "-out", tp], cwd=ctx.scratch, env=env,
                               capture_output=True, text=True, timeout=timeout)
            rc, err = p.returncode, p.stderr
        except subprocess.TimeoutExpired as e:
            rc, err = -9, "player timed out after %ds" % timeout
        return (sc, tp, rc, err)

    with ThreadPoolExecutor(max_workers=workers or vf.NCPU) as ex:
        return list(ex.map(one, range(len(scenarios))))


_pair = re.compile(r'<<"([^"]+)", (\d+)>>')


def validate(ctx, runs, defs, prop_prefixes, keyfn=None):
    """Concatenate traces (a Scenario record resets the monitor), validate, create findings for the clauses
    whose name starts with one of prop_prefixes. Returns statistics."""
    groups = [[] for _ in range(min(vf.NCPU, max(1, len(runs))))]
    for i, r in enumerate(runs):
        groups[i % len(groups)].append(r)
    paths = []
    stats = {"scenarios": len(runs), "events": 0, "crashed": 0, "clauses_other_properties": {}}
    for gi, g in enumerate(groups):
        p = ctx.path("nodetrace_%02d.ndjson" % gi)
        with open(p, "w") as out:
            for (sc, tp, rc, err) in g:
                lines = open(tp).read().splitlines() if os.path.exists(tp) else []
                if not lines:
                    raise vf.Inconclusive("scenario %s produced no trace (rc=%s): %s" % (sc["name"], rc, err[-1500:]))
                last = json.loads(lines[-1])
                if rc != 0:
                    crash = ("panic:" in err or "fatal error:" in err)
                    lib = "gomavlib/v3" in err
                    if rc == 2 and not crash:
                        raise vf.Inconclusive("player failed on %s: %s" % (sc["name"], err[-1500:]))
                    if rc == -9:
                        # the player itself hung: only possible if a library call never returned
                        lines.append(json.dumps({"e": "Timeout", "what": "close_return", "seq": last["seq"] + 1, "t": last.get("t", 0)}))
                    elif crash and lib:
                        stats["crashed"] += 1
                        lines.append(json.dumps({"e": "Panic", "seq": last["seq"] + 1, "t": last.get("t", 0), "stderr": err[-800:]}))
                    else:
                        raise vf.Inconclusive("player crashed outside the library on %s: %s" % (sc["name"], err[-1500:]))
                    lines.append(json.dumps({"e": "Final", "seq": last["seq"] + 2, "t": last.get("t", 0), "goroutines_left": 0, "stacks": [],
                                             "ports_rebound": True, "custom_close": [], "events_closed": True, "synthetic": True}))
                stats["events"] += len(lines)
                out.write("\n".join(lines) + "\n")
        paths.append(p)
    res = ctx.validate("Trace_Node", paths, env={"DEFS": defs}, timeout=1800)
    by_sid = {sc["conf"]["sid"]: (sc, tp) for (sc, tp, rc, err) in runs}
    for (_, rejects, walked, out) in res:
        for m in re.finditer(r'<<\s*"REJECT",\s*(\d+),\s*(-?\d+),\s*"NODE",\s*(\{.*?\})\s*>>\s*(?=\n<<|\nModel|\n[A-Z]|\Z)', out, re.S):
            sid = int(m.group(2))
            sc, tp = by_sid.get(sid, (None, None))
            pairs = _pair.findall(m.group(3))
            trace = vf.read_ndjson(tp) if tp else []
            for clause, seq in pairs:
                if not any(clause.startswith(pfx) for pfx in prop_prefixes):
                    stats["clauses_other_properties"][clause] = stats["clauses_other_properties"].get(clause, 0) + 1
                    continue
                fam = sc["name"].split("/")[0] + "/" + (sc["name"].split("/")[1] if keyfn is None else keyfn(sc)) if sc else "?"
                ev = next((x for x in trace if x.get("seq") == int(seq)), None)
                if ev and "bytes" in ev:
                    ev = dict(ev)
                    ev["bytes"] = "(%d bytes)" % len(ev["bytes"])
                ctx.finding("NODE:%s:%s" % (clause, fam),
                            "scenario %s violates %s at event %s" % (sc["name"] if sc else sid, clause, seq),
                            {"scenario": sc, "event": ev, "clause": clause})
    return stats


def shape(sc):
    ops = tuple(s["op"] for s in sc["steps"])
    return (sc["name"].split("/")[0], len(sc["endpoints"]), tuple(e["kind"] for e in sc["endpoints"]), len(ops),
            sum(1 for o in ops if o in ("read_err", "twrite_mode", "hold", "hold_at_start", "close", "consumer", "listener_mode")))


def model_check(ctx, family):
    """Exhaustive TLC runs of the INode model for this property family (spec-side result)."""
    cfgs = MC_CONFIGS.get(family, [])
    for cfg, thorough_only in cfgs:
        if thorough_only and not ctx.thorough():
            continue
        if os.path.exists(os.path.join(ctx.specdir, cfg + ".cfg")):
            ctx.mc("MC_Node", cfg + ".cfg", timeout=3000, heap="16g")


def generated(ctx, family):
    """Scenarios generated by TLC from the INode model (filled in by Gen_Node when available)."""
    return []


MC_CONFIGS = {}


def run_family(ctx, scs, prefixes, rule, family=None, binary=None, timeout=90, workers=None):
    if family:
        model_check(ctx, family)
        scs = scs + generated(ctx, family)
    defs = ctx.path("defs.json")
    ctx.run_mvh(["defs", "-out", defs])
    runs = play(ctx, scs, binary=binary, timeout=timeout, workers=workers)
    st = validate(ctx, runs, defs, prefixes)
    for sc in scs:
        ctx.distinct.add(shape(sc))
    ctx.sample({"name": scs[0]["name"], "conf": scs[0]["conf"], "endpoints": scs[0]["endpoints"], "steps": scs[0]["steps"][:10]})
    tr = vf.read_ndjson(runs[0][1])
    for e in tr:
        if "bytes" in e:
            e["bytes"] = "(%d bytes)" % len(e["bytes"])
    ctx.sample({"trace_head": tr[:10]})
    ctx.cov["traces_validated_against_impl"] = ctx.cov.get("traces_validated_against_impl", 0) + st["scenarios"]
    ctx.cov["evaluations"] = ctx.cov.get("evaluations", 0) + st["events"]
    ctx.cov["node_stats"] = st
    ctx.cov["rule"] = rule
    return runs, st
