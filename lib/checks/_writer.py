"""Shared processing of WLINK / WINIT records validated by Trace_Reader."""
import json

import vf


def validate_links(ctx, trace, defs, clause_filter=None):
    recs = vf.read_ndjson(trace)
    paths = []
    n = max(1, min(vf.NCPU, len(recs)))
    size = (len(recs) + n - 1) // n
    chunks = [recs[i:i + size] for i in range(0, len(recs), size)]
    for i, ch in enumerate(chunks):
        p = ctx.path("%s.part%03d.ndjson" % (trace.split("/")[-1], i))
        with open(p, "w") as f:
            for r in ch:
                f.write(json.dumps(r) + "\n")
        paths.append(p)
    res = ctx.validate("Trace_Reader", paths, env={"DEFS": defs})
    frames = 0
    for ch, (_, rejects, walked, _) in zip(chunks, res):
        if walked != len(ch):
            raise vf.Inconclusive("walked %d of %d" % (walked, len(ch)))
        for (line, seq, kind, clauses, extra) in rejects:
            r = ch[line - 1]
            mine = [c for c in clauses if clause_filter is None or clause_filter(c)]
            if not mine:
                continue
            first = int(extra) if extra and extra.strip().isdigit() else 0
            rr = {"cfg": r.get("cfg"), "impl": r.get("impl"), "tag": r.get("tag"), "first_bad_write_index": first}
            if kind == "WLINK" and first:
                rr["writes_around_first_bad"] = r["writes"][max(0, first - 3):first + 1]
            if kind == "WINIT":
                rr = r
            key = "%s:%s:%s:v%s:key=%s" % (kind, "+".join(sorted(mine)), r.get("impl"), r["cfg"]["v"], bool(r["cfg"]["key"]))
            ctx.finding(key, "%s (%s, tag %s) rejected by clauses %s at write %s" % (kind, r.get("impl"), r.get("tag"), mine, first), rr)
    for r in recs:
        if r["e"] == "WLINK":
            frames += sum(1 for w in r["writes"] if w["ok"])
            ctx.distinct.add((r["impl"], r["cfg"]["v"], bool(r["cfg"]["key"]), r["cfg"]["comp"] == 0, len(r["writes"]),
                              sum(1 for w in r["writes"] if not w["ok"])))
        else:
            ctx.distinct.add(("WINIT", r["cfg"]["v"], r["cfg"]["sys"], r["cfg"]["comp"], bool(r["cfg"]["key"])))
    return recs, frames
