"""C15 - concurrent use of a node is free of data races (Go race detector on model-derived schedules)."""
import random
import re

import scenarios
import vf
from checks import _node

PROP = "C15"
LEVEL = "exploration"


def run(ctx):
    ctx.build_mvh()
    race = ctx.build_mvh(race=True)
    rng = random.Random(ctx.seed)
    th = ctx.thorough()
    scs = (scenarios.fam_events(rng, 120 if th else 14, th) + scenarios.fam_fanout(rng, 100 if th else 10, th) +
           scenarios.fam_close(rng, 0) + scenarios.fam_auto(rng, 40 if th else 6, th) +
           scenarios.fam_stall(rng, [1, 64] if not th else [1, 5, 64, 66]) + scenarios.fam_links(rng, False)[:3] +
           scenarios.fam_events_gated(rng, 20 if th else 6) + scenarios.fam_events_server(rng, 12 if th else 4) +
           scenarios.fam_race(rng, 12 if th else 3) + scenarios.fam_udp(rng, 8 if th else 2))
    scs += _node.generated(ctx, "events") + _node.generated(ctx, "close")
    runs = _node.play(ctx, scs, binary=race, timeout=180, env_extra={"GORACE": "exitcode=0 halt_on_error=0 history_size=3"},
                      workers=max(2, vf.NCPU // 2))
    # application goroutines: a pool of four workers editing, fixing (Node.FixFrame on one shared node, unkeyed and keyed)
    # and forwarding frames of different message types at the same time
    from checks import _stream
    defs = ctx.path("defs.json")
    ctx.run_mvh(["defs", "-out", defs])
    rc_g, out_g = ctx.tlc("Gen_Route", env={"DEFS": defs, "DIALECT": defs + ".all.json", "VECMOD": 40, "VECOFF": ctx.seed % 40},
                          tag="gen:route", timeout=1800, count=False)
    if _stream.parse_vec_lines(out_g, ctx.path("routevec.ndjson")) == 0:
        raise vf.Inconclusive("Gen_Route produced no vectors:\n" + vf.tail(out_g, 30))
    pr = ctx.run_mvh(["route", "-aux", "poolonly", "-vectors", ctx.path("routevec.ndjson"), "-out", ctx.path("pool.ndjson"), "-seed", ctx.seed,
                      "-tier", ctx.tier], binary=race, env_extra={"GORACE": "exitcode=0 halt_on_error=0 history_size=3"}, timeout=900)
    runs = list(runs) + [({"name": "fixframe_worker_pool", "conf": {}, "endpoints": [], "steps": []}, None, pr.returncode, pr.stderr)]
    reports = 0
    for (sc, tp, rc, err) in runs:
        if rc not in (0,):
            if "DATA RACE" not in err and rc == 2:
                raise vf.Inconclusive("player failed on %s: %s" % (sc["name"], err[-1000:]))
        for blk in re.split(r"(?m)^==================\n", err):
            if "WARNING: DATA RACE" not in blk:
                continue
            if "gomavlib/v3" not in blk:
                ctx.notes.append("race report without gomavlib frames ignored in %s" % sc["name"])
                continue
            reports += 1
            funcs = re.findall(r"gomavlib/v3(?:/[\w/]+)?\.((?:\(\*?\w+\)\.)?\w+)\(", blk)
            site = "+".join(sorted(set(funcs))[:4])
            ctx.finding("RACE:%s" % site, "data race reported in scenario %s" % sc["name"], {"scenario": sc, "report": blk[:3000]})
        ctx.distinct.add(_node.shape(sc))
    ctx.sample({"name": scs[0]["name"], "steps": scs[0]["steps"][:8]})
    ctx.sample({"families": sorted(set(s["name"].split("/")[0] for s in scs))})
    ctx.cov["evaluations"] = len(scs)
    ctx.cov["race_reports"] = reports
    ctx.cov["rule"] = ("the scenario families of C10-C14 and C16 (several goroutines writing messages and frames to all / one / all-but-one "
                       "channels, one consuming events, forwarding, closing at every point incl. gate-held windows, heartbeats, stream "
                       "requests, TCP/UDP peers) and the TLC-generated schedules replayed against the node built with -race; a report "
                       "whose stacks contain a gomavlib package is a violation; distinct = scenario shapes")
    ctx.cov["explanation"] = "TLA+/TLC cannot observe memory accesses of compiled Go code: the verdict is the Go race detector's, the schedules come from the model-based scenario machinery"
    ctx.assumptions += ["scenarios stay within the API use the property lists (no two application goroutines mutate the same frame object)",
                        "the race detector only sees races on executed schedules"]
