"""C04 - message encode/decode round trip, v2 truncation, extensions, buffer ownership."""
from checks import _msg

PROP = "C04"
LEVEL = "model_checking"


def run(ctx):
    cfg = "MC_Message_thorough.cfg" if ctx.thorough() else "MC_Message.cfg"
    _msg.run_msg(ctx, "c04", lambda kind, c: kind in ("ENC", "DEC"), [("MC_Message", cfg)])
    ctx.cov["rule"] = ("per message type: boundary value assignments (NaN payloads, -0, min/max, strings with NUL / over length, enums "
                       "above wire width) encoded and decoded in both versions; arbitrary payloads of lengths {0,1,2,base-1..base+1,"
                       "ext-1..ext+1,255,300} x {zero,0xFF,random}; valid encodings with trailing zeros removed/appended; payload handed "
                       "to Read as a window of a larger 0xAA-filled array; every successful decode is followed by the caller editing every field of "
                       "the returned message and decoding the same payload again (must give the same values); distinct = (definition, version, shape) classes")
    ctx.assumptions += ["spec-level theorem (MC_Message): the v2 decoder is insensitive to trailing zeros removed/appended and to bytes beyond the extended size, so comparing each real Read against Decode covers those clauses"]
