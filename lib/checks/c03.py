"""C03 - message payload layout, sizes and CRC_EXTRA follow the MAVLink spec."""
from checks import _msg

PROP = "C03"
LEVEL = "model_checking"

MINE = {
    "DEF": {"no_panic", "init_ok", "crc_extra", "size_base", "size_ext", "malformed_rejected"},
    "ENC": {"no_panic", "layout", "v1_exact_base", "decodes", "round_trip"},
}


def run(ctx):
    cfg = "MC_Message_thorough.cfg" if ctx.thorough() else "MC_Message.cfg"
    _msg.run_msg(ctx, "c03", lambda kind, c: c in MINE.get(kind, ()), [("MC_Message", cfg)])
    ctx.cov["rule"] = ("every distinct message struct of the 19 shipped dialects plus 9 user structs: one DEF record (CRC_EXTRA, sizes) "
                       "and ENC probes setting one field / array element at a time to distinct non-zero bytes (first/middle/last "
                       "element in quick, all elements x 3 values in thorough); distinct = (definition, version, non-zero field) triples")
    ctx.assumptions += ["the reflected Go struct is the message definition (the dialect XML is not in the repository)",
                        "MavMessage.tla transcribes the MAVLink field-reordering / CRC_EXTRA / truncation rules (MC_Message checks its internal consistency)"]
