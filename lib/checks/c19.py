"""C19 - enum values survive conversion to text and back."""
import json
import re

import vf

PROP = "C19"
LEVEL = "model_checking"


def parse_failing(extra):
    """[clause |-> {i, j}, ...] printed by TLC -> {clause: [indices]}"""
    out = {}
    if not extra:
        return out
    for m in re.finditer(r"(\w+) \|-> \{([^}]*)\}", extra):
        out[m.group(1)] = [int(x) for x in m.group(2).split(",") if x.strip()]
    return out


def run(ctx):
    ctx.build_mvh()
    ctx.mc("MC_Enum", "MC_Enum.cfg", timeout=900)
    tr = ctx.path("c19.ndjson")
    ctx.run_mvh(["enums", "-aux", "c19", "-out", tr, "-seed", ctx.seed, "-tier", ctx.tier])
    # a quarter of the shipped enum types again on a 32-bit build (GOARCH=386): word-size slips in the text conversions
    b386 = ctx.build_mvh_386()
    tr386 = ctx.path("c19_386.ndjson")
    ctx.run_mvh(["enums", "-aux", "c19", "-out", tr386, "-seed", ctx.seed, "-tier", ctx.tier], binary=b386, env_extra={"VERIF_ENUM_STRIDE": "4"})
    n386 = 0
    with open(tr, "a") as f:
        for r in vf.read_ndjson(tr386):
            r["type"] = "386:" + r["type"]
            f.write(json.dumps(r) + "\n")
            n386 += 1
    ctx.cov["enum_types_probed_on_a_32_bit_build"] = n386
    # enum types of GENERATED dialects: grammar-made XML through the real generator, compiled into a probe binary
    from checks import c18
    ngen = 0
    with open(tr, "a") as f:
        for b0 in ([0, 20, 40, 60, 80] if ctx.thorough() else [0]):
            grecs, _ = c18.run_batch(ctx, 500 + b0, 20 if ctx.thorough() else 10, probe_aux="enums")
            for r in grecs:
                r["type"] = "generated.%d.%s" % (500 + b0, r["type"])
                f.write(json.dumps(r) + "\n")
                ngen += 1
    if ngen == 0:
        raise vf.Inconclusive("no enum type of a generated dialect was probed")
    parts = vf.split_ndjson(tr, vf.NCPU, ctx.path("c19part"))
    res = ctx.validate("Trace_Dialect", [p for p, _ in parts], env={"DEFS": "-"})
    ntypes = nprobes = nbit = 0
    for (p, off), (_, rejects, walked, _) in zip(parts, res):
        recs = vf.read_ndjson(p)
        for r in recs:
            ntypes += 1
            nbit += 1 if r["bitmask"] else 0
            nprobes += len(r["probes"]) + len(r["junk"])
            for pr in r["probes"]:
                ctx.distinct.add((r["type"], bytes(pr["v"])))
        for (line, seq, kind, clauses, extra) in rejects:
            r = recs[line - 1]
            if any(c.startswith("H_") for c in clauses):
                raise vf.Inconclusive("harness sanity clause failed: %s for %s" % (clauses, r["type"]))
            failing = parse_failing(extra)
            for c in clauses:
                idx = failing.get(c, [])
                if not idx:
                    ctx.finding("ENUM:%s:%s" % (c, r["type"]), "enum %s violates %s (%s)" % (
                        r["type"], c, "%d conversions differed" % r.get("conc_diff", 0) if c.startswith("same_text_when") else "junk text"),
                                {"type": r["type"], "junk": r["junk"]})
                for i in idx[:40]:
                    pr = r["probes"][i - 1]
                    v = int.from_bytes(bytes(pr["v"]), "little")
                    if r["type"].startswith("386:") and not r["bitmask"] and v >= 1 << 31:
                        # one class of input: an ordinary enum value that does not fit a 32-bit int, on a 32-bit build
                        ctx.finding("ENUM:%s:386:ordinary_enum_value_of_2^31_or_more" % c,
                                    "on a 32-bit build (GOARCH=386) enum %s value %d renders %r, parses back to %d (err=%s)" % (
                                        r["type"][4:], v, bytes(pr["text"]).decode("latin1"),
                                        int.from_bytes(bytes(pr["back"]), "little"), pr["uerr"]),
                                    {"goarch": "386", "type": r["type"][4:], "bitmask": False, "probe": pr, "consts": r["consts"]})
                        continue
                    ctx.finding("ENUM:%s:%s:v=%d" % (c, r["type"], v),
                                "enum %s value %d renders %r, parses back to %d (err=%s)" % (
                                    r["type"], v, bytes(pr["text"]).decode("latin1"),
                                    int.from_bytes(bytes(pr["back"]), "little"), pr["uerr"]),
                                {"type": r["type"], "bitmask": r["bitmask"], "probe": pr, "consts": r["consts"]})
    recs0 = vf.read_ndjson(parts[0][0])
    ctx.sample({"type": recs0[0]["type"], "bitmask": recs0[0]["bitmask"], "probe": recs0[0]["probes"][0], "junk": recs0[0]["junk"][2]})
    ctx.cov["traces_validated_against_impl"] = ntypes
    ctx.cov["evaluations"] = nprobes
    ctx.cov["enum_types"] = ntypes
    ctx.cov["bitmask_types"] = nbit
    ctx.cov["enum_types_of_generated_dialects"] = ngen
    ctx.cov["rule"] = ("every defining enum type of the 19 shipped dialects (list generated from the sources at check time) and every enum type of "
                       "10 (quick) / 100 (thorough) dialects generated from grammar-made XML by the real generator: every defined "
                       "constant, for bitmasks 0 and seeded unions of defined flags (incl. all flags), for ordinary enums boundary and "
                       "seeded values over the full uint64 range, each text parsed into a fresh variable and into one holding another value, ~23 junk texts; distinct = (type, value) pairs")
    ctx.assumptions += ["an enum is treated as a bitmask iff its generated MarshalText joins names with ' | ' (the dialect XML is not shipped)",
                        "alias types (type X = other.X) are the same Go type and are probed once, at their definition"]
