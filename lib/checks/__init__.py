"""Registry: property id -> (check function, claimed level)."""
import importlib
import os
import pkgutil

REGISTRY = {}

for m in pkgutil.iter_modules([os.path.dirname(__file__)]):
    mod = importlib.import_module("checks." + m.name)
    if hasattr(mod, "PROP"):
        REGISTRY[mod.PROP] = (mod.run, getattr(mod, "LEVEL", "model_checking"))
