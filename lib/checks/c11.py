"""C11 - write fan-out: all / one / all-but-one, exactly once, FIFO per channel."""
import random

import scenarios
from checks import _node

PROP = "C11"
LEVEL = "model_checking"


def run(ctx):
    ctx.build_mvh()
    rng = random.Random(ctx.seed)
    scs = scenarios.fam_fanout(rng, 600 if ctx.thorough() else 40, ctx.thorough()) + scenarios.fam_udp(rng, 60 if ctx.thorough() else 8)
    _node.run_family(ctx, scs, ["C11."], family="fanout", rule=(
        "2..5 custom channels, 2..4 writer goroutines issuing 20..200 mixed WriteMessage{All,To,Except} / WriteFrame{All,To,Except} "
        "calls with unique tags while frames arrive and events are consumed, targets including a closed channel instance and a foreign "
        "channel, paced so that fewer than 32 items are outstanding per healthy channel; every transport write is cut into frames by "
        "the spec's parser and judged: exactly once, only addressed channels, every steady open channel reached, per-writer FIFO, "
        "forwarded frames keep their header, originated ones get the link's; plus TLC-generated schedules; distinct = scenario shapes"))
    ctx.assumptions += ["'must reach' is demanded only for channels that were open (event received) before the call, never disturbed, "
                        "and for calls that returned before Close",
                        "pacing keeps every healthy queue below 64 so that a drop there is never legitimate"]
