"""C14 - channel lifecycle under faults: errors reported, reconnects, idle expiry."""
import random

import scenarios
from checks import _node

PROP = "C14"
LEVEL = "model_checking"


def run(ctx):
    ctx.build_mvh()
    # timed implementation-shaped model of a client endpoint (connect with its dial timeout, reconnect period, one channel at a
    # time, read deadline armed per Read) against the rules of ReconnRule - the predicates the trace monitor applies with slack
    ctx.mc("IClient", "IClient.cfg", timeout=1200, heap="8g")
    rng = random.Random(ctx.seed)
    scs = scenarios.fam_faults(rng, ctx.thorough()) + scenarios.fam_events_server(rng, 30 if ctx.thorough() else 6) + scenarios.fam_udp(rng, 20 if ctx.thorough() else 4)
    _node.run_family(ctx, scs, ["C14.", "C10.open_event_arrives", "C10.close_event_arrives_after_failure", "C12.no_socket_left_open"], family="faults",
                     timeout=120, workers=8, rule=(
        "read error on custom transports repeated 1..5 times; TCP client against a fake server that refuses, accepts-then-closes, "
        "drops an established connection (reconnect delay measured after every failure, reconnect period shortened to 100 ms through "
        "the verif setter); serial endpoint with an opener failing n times; TCP/UDP servers with several peers, a dropped peer and a "
        "later one; idle expiry with a silent and a steadily fed peer on TCP/UDP servers and on TCP/UDP clients (first connection silent, "
        "re-opened connection fed; idle timeout 300 ms); UDP client and broadcast endpoints with a fake peer; distinct = scenario shapes"))
    timed(ctx)
    ctx.assumptions += ["timing tolerances: reconnect in [2/3 x period - 5 ms, period + 3 s], idle close in [2/3 x timeout - 5 ms, timeout + 3 s] (recorded times can be late under load)",
                        "serial devices are faked through VerifSetSerialOpenFunc (hook_needed of the property)"]


def timed(ctx):
    """timednetconn: every Read / Write is immediately preceded by its own deadline."""
    import vf
    tr = ctx.path("timed.ndjson")
    ctx.run_mvh(["timed", "-out", tr, "-seed", ctx.seed, "-tier", ctx.tier])
    res = ctx.validate("Trace_Wire", [tr], env={"DEFS": "-"})
    recs = vf.read_ndjson(tr)
    for (_, rejects, walked, _) in res:
        for (line, seq, kind, clauses, _) in rejects:
            mine = [c for c in clauses if not c.startswith("H_")]
            if mine:
                ctx.finding("TIMED:%s" % "+".join(sorted(mine)), "timednetconn record rejected: %s" % mine, recs[line - 1])
            elif not ctx.findings:
                # the harness's own bookkeeping does not add up and nothing else was found: no verdict
                raise vf.Inconclusive("timednetconn harness sanity clause failed: %s" % clauses)
    ctx.cov["timednetconn_operations"] = sum(len(r["ops"]) for r in recs)
    ctx.cov["traces_validated_against_impl"] += len(recs)
