"""C13 - a stalled or failing channel neither stalls the node nor dies silently."""
import random

import scenarios
from checks import _node

PROP = "C13"
LEVEL = "model_checking"


def run(ctx):
    ctx.build_mvh()
    rng = random.Random(ctx.seed)
    pos = sorted(set([1, 2, 3, 5, 64, 65, 66, 70] + [rng.randint(4, 63) for _ in range(4)])) if not ctx.thorough() else list(range(1, 71))
    scs = scenarios.fam_stall(rng, pos)
    _node.run_family(ctx, scs, ["C13.", "C11.reaches_every_open_channel", "C12.write_calls_return"], family="stall", timeout=120, rule=(
        "transport write of one channel blocked from its k-th call on (k over a window incl. the queue boundary 64..66) while 100+ "
        "writes to all go on: healthy channels must receive everything, events keep arriving, calls return, the released channel "
        "delivers the oldest 63..66 items in order; transport write failing at the k-th call and unencodable items (raw id outside the "
        "dialect, id > 255 on a v1 link, no dialect) at seeded positions: within the bound the channel is reported closed or later "
        "valid writes appear on its wire; distinct = scenario shapes"))
