"""C01 - frame wire format: spec layout and lossless round trip."""
import json
import re

import vf

PROP = "C01"
LEVEL = "model_checking"


def parse_vectors(out, path):
    n = 0
    with open(path, "w") as f:
        for ln in out.splitlines():
            if ln.startswith('"VEC '):
                body = ln[5:-1].replace('\\"', '"')
                json.loads(body)
                f.write(body + "\n")
                n += 1
    return n


def run(ctx):
    ctx.build_mvh()
    # 1. spec side: the format is a lossless prefix-free code on the boundary product; emit vectors
    mod = 97 if not ctx.thorough() else 11
    ok, out = ctx.mc("MC_Frame", "MC_Frame_thorough.cfg" if ctx.thorough() else "MC_Frame.cfg",
                     env={"VECMOD": mod, "VECOFF": ctx.seed % mod}, timeout=1800)
    nvec = parse_vectors(out, ctx.path("vectors.ndjson"))
    if nvec == 0:
        raise vf.Inconclusive("MC_Frame emitted no vectors")
    ctx.log("MC_Frame ok, %d spec-computed vectors" % nvec)
    # 2. drive the real writer / reader
    tr = ctx.path("c01.ndjson")
    ctx.run_mvh(["c01", "-out", tr, "-seed", ctx.seed, "-tier", ctx.tier, "-vectors", ctx.path("vectors.ndjson")])
    parts = vf.split_ndjson(tr, vf.NCPU, ctx.path("c01part"))
    # 3. validate every record with the PWire monitor
    defs = ctx.path("defs.json")
    ctx.run_mvh(["defs", "-out", defs])
    res = ctx.validate("Trace_Wire", [p for p, _ in parts], env={"DEFS": defs})
    total = 0
    kinds = {}
    hfail = []
    for (p, off), (_, rejects, walked, _) in zip(parts, res):
        recs = vf.read_ndjson(p)
        total += walked
        for r in recs:
            kinds[r["e"]] = kinds.get(r["e"], 0) + 1
            f = r.get("f") or (r.get("res") or {}).get("f") or {}
            ctx.distinct.add((r["e"], f.get("v"), f.get("iflag"), len(f.get("payload", [])), f.get("id", 0) > 255,
                              r.get("dl")))
        for (line, seq, kind, clauses, _) in rejects:
            r = recs[line - 1]
            f = r.get("f") or {}
            hs = [c for c in clauses if c.startswith("H_")]
            if hs:
                # a reader input that is not a whole frame: either the harness is wrong, or the writer whose output
                # it is was already rejected (then that rejection is the finding); decided after the walk
                hfail.append((hs, r))
                continue
            key = "%s:%s:v%s:signed=%s:idgt255=%s" % (kind, "+".join(sorted(clauses)), f.get("v"),
                                                     f.get("iflag", 0) & 1, f.get("id", 0) > 255)
            ctx.finding(key, "record rejected by PWire clauses %s" % clauses, r)
    if hfail and not ctx.findings:
        raise vf.Inconclusive("harness sanity clause failed: %s on %s" % (hfail[0][0], json.dumps(hfail[0][1])[:400]))
    # 4. streams of many frames written by one real writer, read back by one real reader under several chunkings,
    #    every returned frame inspected after the whole stream has been read (judged by the reader monitor)
    from checks import _stream
    trs = ctx.path("c01s.ndjson")
    ctx.run_mvh(["c01s", "-out", trs, "-seed", ctx.seed, "-tier", ctx.tier])
    srecs = _stream.validate_streams(ctx, trs, defs=defs, clause_filter=lambda c: c in {
        "no_panic", "frame_matches_consumed_bytes", "clean_stream_yields_every_frame", "independent_of_chunking", "result_kind"})
    total += len(srecs)
    kinds["STREAM"] = len(srecs)
    recs0 = vf.read_ndjson(parts[0][0])
    for r in recs0[:2] + recs0[-1:]:
        ctx.sample(r)
    ctx.cov["traces_validated_against_impl"] = total
    ctx.cov["evaluations"] = total
    ctx.cov["record_kinds"] = kinds
    ctx.cov["spec_vectors"] = nvec
    ctx.cov["rule"] = ("one record per real frame.Writer.Write / frame.Reader.Read call on generated frames (every header "
                       "byte value one at a time, id bits and boundaries, payload lengths 0..255 x 4 content classes, every "
                       "timestamp/signature bit, random), decoded messages of the dialect 'all' encoded by the writer (40 types quick, all thorough) plus TLC-computed vectors; streams of 3..12 frames written by one writer and read back by one reader under 5 chunkings, frames inspected after the whole stream was read; distinct = (record kind, version, signed, "
                       "payload length, id>255, dialect mode) classes")
    ctx.assumptions += ["MavFrame.tla transcribes the MAVLink serialization document correctly (checked lossless/prefix-free by MC_Frame)",
                        "TLC evaluates the operators correctly"]
