"""C16 - automatic heartbeats and stream requests do what is configured, no more."""
import random

import scenarios
from checks import _node

PROP = "C16"
LEVEL = "model_checking"


def run(ctx):
    ctx.build_mvh()
    # implementation-shaped model of the request table and its cleaner with discrete time: the bursts it sends are exactly
    # those the rule SrRule!Due prescribes (the same operator the trace monitor applies to recorded times)
    ctx.mc("ISr", "ISr.cfg", timeout=1200, heap="8g")
    rng = random.Random(ctx.seed)
    scs = scenarios.fam_auto(rng, 300 if ctx.thorough() else 30, ctx.thorough())
    _node.run_family(ctx, scs, ["C16."], family="auto", workers=8, rule=(
        "heartbeat configurations (dialect common / none / without id 0 / with a non-standard id 0 / without id 66, enabled and "
        "disabled, period 20/50 ms, system and autopilot types, both versions) observed for 12 periods on 1..3 channels: field values, "
        "count per channel against the period, none when not wanted; stream requests: histories of heartbeats from (channel, system, "
        "component, autopilot) sources interleaved with other traffic and writes: exactly the seven requests per due heartbeat (the first of "
        "a sender, and every one at least 30 s after the sender's last burst - two long scenarios of 38 s and 63 s cross the "
        "cleaner's ticks and the period from both sides) on its channel, one event each, nothing for other autopilots / disabled / dialect lacking a standard message; distinct = scenario shapes"))
    ctx.assumptions += ["heartbeat count tolerance: -50 % / +20 % +- 2 of window/period (Go tickers drop ticks under load); spacing judged on the 500 ms scenario only",
                        "recorded times are the consumer's: heartbeats within 400 ms of the 30 s boundary are not judged (the scenarios avoid them)"]
