"""C16 - automatic heartbeats and stream requests do what is configured, no more."""
import random

import scenarios
from checks import _node

PROP = "C16"
LEVEL = "model_checking"


def run(ctx):
    ctx.build_mvh()
    rng = random.Random(ctx.seed)
    scs = scenarios.fam_auto(rng, 300 if ctx.thorough() else 30, ctx.thorough())
    _node.run_family(ctx, scs, ["C16."], family="auto", workers=8, rule=(
        "heartbeat configurations (dialect common / none / without id 0 / with a non-standard id 0 / without id 66, enabled and "
        "disabled, period 20/50 ms, system and autopilot types, both versions) observed for 12 periods on 1..3 channels: field values, "
        "count per channel against the period, none when not wanted; stream requests: histories of heartbeats from (channel, system, "
        "component, autopilot) sources interleaved with other traffic and writes: exactly the seven requests once per sender on its "
        "channel, one event, nothing for other autopilots / disabled / dialect lacking a standard message; distinct = scenario shapes"))
    ctx.assumptions += ["heartbeat count tolerance: within 20 % +- 2 of window/period (Go tickers may compress gaps)",
                        "re-request after 30 s is not waited for"]
