"""C07 - signature replay window: exactly frames older than 10 s are refused."""
import vf
from checks import _stream, _writer

PROP = "C07"
LEVEL = "model_checking"

WRITER = {"timestamp_monotone", "timestamp_clock", "no_panic", "one_whole_frame"}


def run(ctx):
    ctx.build_mvh()
    ctx.mc("MC_Window", "MC_Window.cfg", timeout=1800)
    # unbounded: the coded 64-bit arithmetic agrees with the rule for ALL 48-bit timestamps (inductive invariant, Apalache)
    if not ctx.apalache("WindowInt", "WindowInt_fixed.cfg"):
        raise vf.Inconclusive("Apalache did not discharge the inductive invariant of WindowInt (model of the current code)")
    rc, out = ctx.tlc("Gen_Signed", env={"MODE": "win", "VSEED": ctx.seed}, tag="gen:window", timeout=900)
    nvec = _stream.parse_vec_lines(out, ctx.path("winvec.ndjson"))
    if nvec != 12:
        raise vf.Inconclusive("Gen_Signed(win) produced %d vectors:\n%s" % (nvec, vf.tail(out, 30)))
    tr = ctx.path("c07r.ndjson")
    ctx.run_mvh(["c07r", "-vectors", ctx.path("winvec.ndjson"), "-out", tr, "-seed", ctx.seed, "-tier", ctx.tier])
    # the WINSET header must lead every part
    recs = vf.read_ndjson(tr)
    head = recs[0]
    hist = [r for r in recs[1:] if r["e"] == "WINHIST"]
    paced = [r for r in recs[1:] if r["e"] == "STREAM"]      # the history with 10.6 s of silence inside
    if not paced:
        raise vf.Inconclusive("the paced history was not recorded")
    nparts = vf.NCPU
    size = (len(hist) + nparts - 1) // nparts
    import json
    paths = []
    chunks = []
    for i in range(0, len(hist), size):
        ch = [head] + hist[i:i + size]
        p = ctx.path("c07r.part%03d.ndjson" % len(paths))
        with open(p, "w") as f:
            for r in ch:
                f.write(json.dumps(r) + "\n")
        paths.append(p)
        chunks.append(ch)
    res = ctx.validate("Trace_Reader", paths, env={"DEFS": "-"})
    for ch, (_, rejects, walked, _) in zip(chunks, res):
        if walked != len(ch):
            raise vf.Inconclusive("walked %d of %d" % (walked, len(ch)))
        for (line, seq, kind, clauses, _) in rejects:
            r = ch[line - 1]
            if any(c.startswith("H_") for c in clauses):
                raise vf.Inconclusive("alphabet frames are not validly signed: %s" % clauses)
            # key: the clause and the shortest failing shape (first index whose verdict differs is not printed; use first two symbols)
            key = "WINHIST:%s:first=%s" % ("+".join(sorted(clauses)), r["hist"][0])
            ctx.finding(key, "history %s accepted=%s rejected by %s" % (r["hist"], r["acc"], clauses), r)
    for r in hist:
        ctx.distinct.add(tuple(r["hist"]))
    # the window on a reader that also has a dialect: histories mixing frames of a dialect message and of an unknown id
    defs = ctx.path("defs.json")
    ctx.run_mvh(["defs", "-out", defs])
    rc, out = ctx.tlc("Gen_SignedDl", env={"DEFS": defs, "DIALECT": defs + ".allplus.json", "VSEED": ctx.seed}, tag="gen:signed_dl", timeout=900)
    nvd = _stream.parse_vec_lines(out, ctx.path("sigdlvec.ndjson"))
    if nvd < 20:
        raise vf.Inconclusive("Gen_SignedDl produced %d vectors:\n%s" % (nvd, vf.tail(out, 30)))
    trd = ctx.path("c07d.ndjson")
    ctx.run_mvh(["c06d", "-aux", "c07", "-vectors", ctx.path("sigdlvec.ndjson"), "-out", trd, "-seed", ctx.seed, "-tier", ctx.tier])
    with open(trd, "a") as f:
        for r in paced:
            f.write(json.dumps(r) + "\n")
    drecs = _stream.validate_streams(ctx, trd, defs=defs, clause_filter=lambda c: c in {"window_gate", "valid_frame_delivered", "no_panic"})
    for r in drecs:
        ctx.distinct.add((r["tag"], tuple(x["k"] for x in r["results"])))
    ctx.cov["histories_with_dialect"] = len(drecs)
    # writer side: timestamps never decrease, are in 10us ticks since 2015-01-01
    trw = ctx.path("c07w.ndjson")
    ctx.run_mvh(["wlink", "-aux", "c07", "-out", trw, "-seed", ctx.seed, "-tier", ctx.tier])
    wrecs, frames = _writer.validate_links(ctx, trw, defs, clause_filter=lambda c: c in WRITER)
    import random
    import scenarios
    from checks import _node
    scs = [sc for sc in scenarios.fam_links(random.Random(ctx.seed), ctx.thorough()) if sc["name"] == "links/v2_keyed"]
    runs = _node.play(ctx, scs)
    st = _node.validate(ctx, runs, defs, ["C07."])
    ctx.cov["node_keyed_link_events"] = st["events"]
    ctx.sample(hist[0])
    ctx.sample(hist[-1])
    ctx.sample({"alphabet_timestamps": "0,1,5,999999,1000000,1000001,1999999,2000000,2000001,2^47,2^48-2,2^48-1"})
    ctx.cov["traces_validated_against_impl"] = len(hist) + len(wrecs)
    ctx.cov["evaluations"] = len(hist) + frames
    ctx.cov["histories"] = len(hist)
    ctx.cov["exhaustive_depth"] = 4 if ctx.thorough() else 3
    ctx.cov["exhaustive"] = True
    ctx.cov["writer_frames_checked"] = frames
    ctx.cov["rule"] = ("all histories of the 12-symbol timestamp alphabet up to the exhaustive depth plus seeded random histories of depth "
                       "4..12, each fed to a fresh real keyed reader (frames signed by TLC); accept/refuse per frame judged by the "
                       "window monitor with exact 48-bit arithmetic; one history with 10.6 s of silence on the transport between the newest frame and the too-old ones (the rule does not depend on arrival times); on a reader with key AND dialect all pairs and seeded triples over (dialect message | unknown id) x 5 timestamps; writer timestamps of 500+ writes per link; distinct = distinct histories")
    ctx.assumptions += ["the 12 alphabet frames are signed by the TLA+ SHA-256 and re-verified once per trace part"]
