module verif/findings/c19enum32

go 1.21.0

toolchain go1.23.5

require github.com/bluenviron/gomavlib/v3 v3.0.0

replace github.com/bluenviron/gomavlib/v3 => /repo
