package c19enum32

import (
	"testing"

	"github.com/bluenviron/gomavlib/v3/pkg/dialects/ardupilotmega"
)

// Run with: GOARCH=386 CGO_ENABLED=0 GOFLAGS=-mod=mod GOPROXY=off go test ./...   (fails)
// and without GOARCH=386 (passes): the generated enum code converts through int.
func TestOrdinaryEnumValueAbove31Bits(t *testing.T) {
	for _, v := range []uint64{1<<31 - 1, 1 << 31, 1<<32 - 1, 1 << 32, 1<<62 + 5} {
		e := ardupilotmega.ACCELCAL_VEHICLE_POS(v)
		text, err := e.MarshalText()
		if err != nil {
			t.Fatalf("marshal %d: %v", v, err)
		}
		var back ardupilotmega.ACCELCAL_VEHICLE_POS
		if err := back.UnmarshalText(text); err != nil {
			t.Errorf("value %d renders %q which does not parse: %v", v, text, err)
			continue
		}
		if uint64(back) != v {
			t.Errorf("value %d renders %q and parses back to %d", v, text, uint64(back))
		}
	}
}
